"""Observation layer: MonSim (event-boundary snapshots, tie handling) and per-instance method wrappers
(intra-event log). Nothing here judges anything; see oracles.py.

Event tuples (first field = kind, second = clock):
 EVENT     (k, t, node id (0 = arrival node), event type, scheduled date)
 accept    (k, t, nid, cid, class, prio, pop before, started now?, idle on-duty server before?, n waiting before, ctx)
 release   (k, t, nid, cid, dest, reroute?, was blocked?, dest pop before, dest capacity(engine), dest true pop)
 block     (k, t, nid, cid, dest, dest counter, dest capacity(engine), dest true pop)
 preempt   (k, t, nid, victim, new, victim prio, new prio, in service [(cid, prio, start, blocked, server off duty)], victim service time,
            victim service end, victim reneging date)
 interrupt (k, t, nid, cid, blocked?, service time, service end, slotted?)
 finish_service (k, t, nid, candidate ids, candidates blocked flags)
 renege    (k, t, nid, candidate ids, candidates had a server flags)
 route     (k, t, nid, cid, class now, dest, engine counters {n:(pop, in service)}, route before, class before finish, truth {n:(pop, waiting)})
 jockey    (k, t, nid, cid, dest, dest true pop, dest capacity(engine))
 reroute_to(k, t, nid, cid, dest, class)
 classchange_wait (k, t, nid, cid, old class, new class, present?, has server?)
 shift     (k, t, nid)
 slot      (k, t, nid, slot size, number in service (engine))
 attach    (k, t, nid, cid, server id, prio, arrival date, interrupted?, waiting [(cid, prio, arr, interrupted)],
            in service [(cid, prio)], server off duty?, server in node.servers?, n interrupted, order in prio list, already had server?, ctx, customer blocked?)
 detach    (k, t, nid, cid, server id, server off duty?, ctx)
 exit      (k, t, cid, completed?)
 arrival   (k, t, node, class, scheduled date, created before, created after)
 arrive_try(k, t, nid, cid, node counter, node capacity(engine), total true pop, node true pop)
 join      (k, t, nid, cid, re-entrant: the node is in the middle of its own shift change / pre-emption)   logged at entry of accept (the accept tuple is logged at its exit)
 record    (k, t, nid, cid, number of records of that customer after writing)
"""
import math, functools, random
import ciw

INF = float('inf')


class EventCap(Exception):
    pass


class Trace:
    def __init__(self):
        self.events = []
        self.snaps = []
        self.viol = []
        self.precls = {}
        self.ctx = []
        self.ties = 0          # tie situations between nodes
        self.tie_choices = set()
        self.ind_ties = 0      # tie situations between simultaneous individuals
        self.logs = None
        self.counters = {}

    def v(self, prop, code, detail=None):
        self.viol.append((prop, code, detail))

    def count(self, name, k=1):
        self.counters[name] = self.counters.get(name, 0) + k


def ind_state(ind):
    srv = ind.server
    if srv is True: sid = True
    elif srv is False or srv is None: sid = None
    else: sid = srv.id_number
    return dict(id=ind.id_number, cls=ind.customer_class, prio=ind.priority_class, server=sid,
                ssd=ind.service_start_date, sed=ind.service_end_date, blocked=ind.is_blocked, dest=ind.destination,
                arr=ind.arrival_date, ren=getattr(ind, 'reneging_date', INF), intr=ind.interrupted,
                with_server=getattr(ind, 'with_server', None), st=ind.service_time, node=ind.node)


def has_real_servers(nd):
    return hasattr(nd, 'servers') and not isinstance(nd, ciw.PSNode)


def snapshot(Q, t, evnode, evtype):
    nodes = {}
    for nd in Q.transitive_nodes:
        plist = {}
        for pl, lst in enumerate(nd.individuals):
            for i in lst: plist[id(i)] = pl
        inds = []
        for i in nd.all_individuals:       # the public view of the node's customers
            st = ind_state(i); st['plist'] = plist.get(id(i))
            inds.append(st)
        qids = [i.id_number for lst in nd.individuals for i in lst]
        servers = None
        if has_real_servers(nd):
            servers = [dict(id=s.id_number, busy=s.busy, cust=(s.cust.id_number if s.cust not in (False, None) else None), off=s.offduty)
                       for s in nd.servers]
        nodes[nd.id_number] = dict(inds=inds, qids=qids, servers=servers, c=nd.c, n=nd.number_of_individuals, nis=nd.number_in_service,
                                   bq=list(nd.blocked_queue), lbq=nd.len_blocked_queue, cap=nd.node_capacity, ned=nd.next_event_date,
                                   net=nd.next_event_type, nintr=nd.number_interrupted_individuals,
                                   intr=[i.id_number for i in nd.interrupted_individuals])
    ex = Q.nodes[-1]
    an = Q.nodes[0]
    return dict(t=t, evnode=evnode, evtype=evtype, nodes=nodes, n_exit=len(ex.all_individuals), exit_n=ex.number_of_individuals,
                exit_completed=ex.number_of_completed_individuals, n_arr=an.number_of_individuals,
                n_accepted=an.number_accepted_individuals, arr_ned=an.next_event_date,
                tracker=Q.statetracker.hash_state())


def abstract_state(snap):
    return hash(tuple((nid, len(nd['inds']), sum(1 for i in nd['inds'] if i['blocked']),
                       sum(1 for i in nd['inds'] if i['server'] is not None)) for nid, nd in snap['nodes'].items()))


def instrument(Q, tr):
    """Replace bound methods of this simulation's node objects by recording wrappers (per instance)."""
    ev = tr.events
    ctx = tr.ctx

    def wrap(obj, name, fn):
        orig = getattr(obj, name)

        @functools.wraps(orig)
        def w(*a, **k):
            return fn(orig, *a, **k)
        setattr(obj, name, w)

    def true_pop(m):
        return len(m.all_individuals)

    for nd in Q.transitive_nodes:
        nid = nd.id_number
        real = has_real_servers(nd)

        def accept(orig, ind, *a, nid=nid, nd=nd, real=real, **k):
            pre_n = nd.number_of_individuals
            idle = any((not s.busy) and (not s.offduty) for s in nd.servers) if real else None
            nwait = sum(1 for i in nd.all_individuals if not i.server) if real else None
            top = ctx[-1] if ctx else None
            ev.append(('join', Q.current_time, nid, ind.id_number,
                       any(f[0] in ('shift', 'preempt', 'interrupt') and f[1] == nid for f in ctx)))
            r = orig(ind, *a, **k)
            ev.append(('accept', Q.current_time, nid, ind.id_number, ind.customer_class, ind.priority_class, pre_n,
                       ind.service_start_date is not False and ind.service_start_date == nd.now, idle, nwait, top))
            return r
        wrap(nd, 'accept', accept)

        def release(orig, ind, next_node, reroute=False, *a, nid=nid, nd=nd, **k):
            ev.append(('release', Q.current_time, nid, ind.id_number, next_node.id_number, reroute, ind.is_blocked,
                       next_node.number_of_individuals, getattr(next_node, 'node_capacity', INF), true_pop(next_node)))
            ctx.append(('release', nid, ind.id_number))
            try:
                return orig(ind, next_node, reroute, *a, **k) if (reroute or a or k) else orig(ind, next_node)
            finally:
                ctx.pop()
        wrap(nd, 'release', release)

        def block(orig, ind, next_node, *a, nid=nid, **k):
            ev.append(('block', Q.current_time, nid, ind.id_number, next_node.id_number, next_node.number_of_individuals,
                       next_node.node_capacity, true_pop(next_node)))
            return orig(ind, next_node, *a, **k)
        wrap(nd, 'block_individual', block)

        def preempt(orig, victim, newind, *a, nid=nid, nd=nd, **k):
            inserv = [(s.cust.id_number, s.cust.priority_class, s.cust.service_start_date, s.cust.is_blocked, s.offduty) for s in nd.servers if s.cust]
            ev.append(('preempt', Q.current_time, nid, victim.id_number, newind.id_number, victim.priority_class, newind.priority_class,
                       inserv, victim.service_time, victim.service_end_date, getattr(victim, 'reneging_date', INF)))
            ctx.append(('preempt', nid, victim.id_number))
            try:
                return orig(victim, newind, *a, **k)
            finally:
                ctx.pop()
        wrap(nd, 'preempt', preempt)

        def interrupt(orig, ind, *a, nid=nid, nd=nd, **k):
            ev.append(('interrupt', Q.current_time, nid, ind.id_number, ind.is_blocked, ind.service_time, ind.service_end_date, nd.slotted))
            ctx.append(('interrupt', nid, ind.id_number))
            try:
                return orig(ind, *a, **k)
            finally:
                ctx.pop()
        wrap(nd, 'interrupt_service', interrupt)

        def finish(orig, *a, nid=nid, nd=nd, **k):
            lst = nd.next_individual if isinstance(nd.next_individual, list) else None
            if lst is not None:
                for i in lst: tr.precls[i.id_number] = i.customer_class
            ev.append(('finish_service', Q.current_time, nid, [i.id_number for i in lst] if lst is not None else None,
                       [i.is_blocked for i in lst] if lst is not None else None))
            return orig(*a, **k)
        wrap(nd, 'finish_service', finish)

        def renege(orig, nid=nid, nd=nd):
            lst = nd.next_individual if isinstance(nd.next_individual, list) else None
            ev.append(('renege', Q.current_time, nid, [i.id_number for i in lst] if lst is not None else None,
                       [bool(i.server) for i in lst] if lst is not None else None))
            ctx.append(('renege', nid, None))
            try:
                return orig()
            finally:
                ctx.pop()
        wrap(nd, 'renege', renege)

        def nextnode(orig, ind, *a, nid=nid, nd=nd, **k):
            pops = {m.id_number: (m.number_of_individuals, m.number_in_service) for m in Q.transitive_nodes}
            cls = ind.customer_class
            route_before = [list(x) if isinstance(x, list) else x for x in ind.route] if hasattr(ind, 'route') else None
            truth = {}
            for m in Q.transitive_nodes:
                if isinstance(m, ciw.PSNode):
                    w = sum(1 for i in m.all_individuals if not getattr(i, 'with_server', False))
                elif math.isinf(m.c):
                    w = 0
                else:
                    w = sum(1 for i in m.all_individuals if (not i.server) or i in m.interrupted_individuals)
                truth[m.id_number] = (len(m.all_individuals), w)
            r = orig(ind, *a, **k)
            ev.append(('route', Q.current_time, nid, ind.id_number, cls, r.id_number, pops, route_before,
                       tr.precls.get(ind.id_number, cls), truth))
            return r
        wrap(nd, 'next_node', nextnode)

        def jock(orig, ind, *a, nid=nid, **k):
            r = orig(ind, *a, **k)
            ev.append(('jockey', Q.current_time, nid, ind.id_number, r.id_number,
                       len(r.all_individuals) if r.id_number != -1 else 0, getattr(r, 'node_capacity', INF)))
            return r
        wrap(nd, 'next_node_for_jockeying', jock)

        def rer(orig, ind, nid=nid):
            route_before = [list(x) if isinstance(x, list) else x for x in ind.route] if hasattr(ind, 'route') else None
            r = orig(ind)
            ev.append(('reroute_to', Q.current_time, nid, ind.id_number, r.id_number, ind.customer_class, route_before))
            return r
        wrap(nd, 'next_node_for_rerouting', rer)

        def ccw(orig, nid=nid, nd=nd):
            ind = nd.next_individual
            ev.append(('classchange_wait', Q.current_time, nid, ind.id_number, ind.customer_class, ind.next_class,
                       ind in nd.all_individuals, bool(ind.server)))
            ctx.append(('classchange', nid, ind.id_number))
            try:
                return orig()
            finally:
                ctx.pop()
        wrap(nd, 'change_customer_class_while_waiting', ccw)

        def shift(orig, nid=nid):
            ev.append(('shift', Q.current_time, nid))
            ctx.append(('shift', nid, None))
            try:
                return orig()
            finally:
                ctx.pop()
        wrap(nd, 'change_shift', shift)

        def slot(orig, nid=nid, nd=nd):
            ev.append(('slot', Q.current_time, nid, nd.schedule.slot_size, nd.number_in_service))
            return orig()
        wrap(nd, 'slotted_service', slot)

        for wname in ('write_individual_record', 'write_interruption_record', 'write_reneging_record', 'write_baulking_or_rejection_record'):
            def wrec(orig, ind, *a, nid=nid, **k):
                r = orig(ind, *a, **k)
                ev.append(('record', Q.current_time, nid, ind.id_number, len(ind.data_records)))
                return r
            wrap(nd, wname, wrec)

        if real:
            def attach(orig, server, ind, *a, nid=nid, nd=nd, **k):
                # waiting = held by no server object (the truth), not the engine's own `not w.server` test: a stale
                # `server` attribute (e.g. the slotted placeholder True carried to the next node) would hide the customer
                held = {id(s.cust) for s in nd.servers if s.cust}
                slotted = getattr(nd, 'slotted', False)
                waiting = [(w.id_number, w.priority_class, w.arrival_date, w in nd.interrupted_individuals)
                           for w in nd.all_individuals if w is not ind and ((not w.server) if slotted else (id(w) not in held))]
                inserv = [(s.cust.id_number, s.cust.priority_class) for s in nd.servers if s.cust]
                order = {w.id_number: k for k, w in enumerate(nd.individuals[ind.priority_class])} if ind.priority_class < len(nd.individuals) else {}
                ev.append(('attach', Q.current_time, nid, ind.id_number, server.id_number, ind.priority_class, ind.arrival_date,
                           ind in nd.interrupted_individuals, waiting, inserv, server.offduty, server in nd.servers,
                           nd.number_interrupted_individuals, order, bool(ind.server), ctx[-1] if ctx else None, ind.is_blocked))
                return orig(server, ind, *a, **k)
            wrap(nd, 'attach_server', attach)

            def detach(orig, server, ind, *a, nid=nid, nd=nd, **k):
                ev.append(('detach', Q.current_time, nid, ind.id_number, server.id_number, server.offduty, ctx[-1] if ctx else None))
                return orig(server, ind, *a, **k)
            wrap(nd, 'detatch_server', detach)

        def dbs(orig, nd=nd):
            lst = nd.next_individual
            if isinstance(lst, list) and len(lst) > 1:
                tr.ind_ties += 1
                pol = Q._tie_policy
                if pol == 'first': return lst[0]
                if pol == 'last': return lst[-1]
                if pol == 'random': return lst[Q._tie_rng.randrange(len(lst))]
                if pol == 'script': return lst[Q._scripted_choice(len(lst))]
            return orig()
        wrap(nd, 'decide_between_simultaneous_individuals', dbs)

    ex = Q.nodes[-1]

    def exacc(orig, ind, completed=True, *a, **k):
        ev.append(('exit', Q.current_time, ind.id_number, completed))
        return orig(ind, completed=completed, *a, **k) if (a or k) else orig(ind, completed=completed)
    wrap(ex, 'accept', exacc)
    an = Q.nodes[0]

    def anev(orig):
        pre = an.number_of_individuals
        nn, nc, date = an.next_node, an.next_class, an.next_event_date
        r = orig()
        ev.append(('arrival', Q.current_time, nn, nc, date, pre, an.number_of_individuals))
        return r
    wrap(an, 'have_event', anev)

    def relind(orig, next_node, ind, *a, **k):
        tot = sum(len(m.all_individuals) for m in Q.transitive_nodes)
        ev.append(('arrive_try', Q.current_time, next_node.id_number, ind.id_number, next_node.number_of_individuals,
                   next_node.node_capacity, tot, len(next_node.all_individuals)))
        return orig(next_node, ind, *a, **k)
    wrap(an, 'release_individual', relind)


class EventCapSim(ciw.Simulation):
    """Plain simulation with an event cap (warm-up runs)."""
    _n = 0

    def event_and_return_nextnode(self, nd):
        self._n += 1
        if self._n > 3000: raise EventCap()
        return super().event_and_return_nextnode(nd)


class MonSim(ciw.Simulation):
    """Simulation subclass: records (clock, node, type, scheduled date) before every event and a full
    configuration snapshot after it. Tie handling: 'native' keeps ciw's own random resolution; 'first' /
    'last' / 'random' resolve the same candidate set with a harness RNG (a legal resolution of an existing
    choice point)."""
    _tr = None
    _cap = 20000
    _tie_policy = 'native'
    _tie_rng = None
    _keep_snaps = True
    _pop_cap = 400

    def _scripted_choice(self, n):
        """'script' policy: the k-th tie situation of the run takes the k-th entry of the script (0 beyond its end); the numbers of
        candidates met are recorded so that a driver can enumerate all resolutions of a small scenario."""
        k = len(self._tie_trace)
        c = self._tie_script[k] if k < len(self._tie_script) else 0
        self._tie_trace.append(n)
        return min(c, n - 1)

    def attach(self, tr, cap=20000, tie_policy='native', tie_seed=0, tie_script=None):
        self._tie_script = list(tie_script or [])
        self._tie_trace = []
        self._tr = tr
        self._nev = 0
        self._cap = cap
        self._tie_policy = tie_policy
        self._tie_rng = random.Random(tie_seed)
        instrument(self, tr)
        tr.snaps.append(snapshot(self, 0.0, None, 'init'))

    def find_next_active_node(self):
        tr = self._tr
        if tr is None:
            return super().find_next_active_node()
        mindate = INF
        cands = []
        for nd in self.active_nodes:
            if nd.next_event_date < mindate:
                mindate = nd.next_event_date; cands = [nd]
            elif nd.next_event_date == mindate:
                cands.append(nd)
        if len(cands) > 1:
            tr.ties += 1
            pol = self._tie_policy
            if pol == 'native':
                nd = super().find_next_active_node()
            elif pol == 'first': nd = cands[0]
            elif pol == 'last': nd = cands[-1]
            elif pol == 'script': nd = cands[self._scripted_choice(len(cands))]
            else: nd = cands[self._tie_rng.randrange(len(cands))]
            tr.tie_choices.add((len(cands), cands.index(nd) if nd in cands else -1))
            return nd
        return super().find_next_active_node()

    def event_and_return_nextnode(self, nd):
        tr = self._tr
        if tr is None:
            return super().event_and_return_nextnode(nd)
        self._nev += 1
        if self._nev > self._cap:
            raise EventCap()
        if self._nev % 64 == 0 and sum(n_.number_of_individuals for n_ in self.transitive_nodes) > self._pop_cap:
            raise EventCap()     # an overloaded network only grows: stop (like the event cap) before snapshots become quadratic
        t = self.current_time
        sched = nd.next_event_date
        nid = getattr(nd, 'id_number', 0)
        evtype = nd.next_event_type if nd is not self.nodes[0] else 'arrival'
        tr.events.append(('EVENT', t, nid, evtype, sched))
        nxt = super().event_and_return_nextnode(nd)
        tr.snaps.append(snapshot(self, t, nid, evtype))
        return nxt
