"""Run one spec under the monitors, scan for known-finding triggers, cut, evaluate oracles."""
import signal, traceback, math, os, sys, json, hashlib
import ciw
from . import gen, mon, oracles, taint

INF = float('inf')


class WallTimeout(Exception):
    pass


def _alarm(*a):
    raise WallTimeout()


class Outcome:
    pass


def run_spec(spec, cap=20000, wall=30, fault=None, sim_class=None):
    """Build the network from the spec, run it with MonSim + wrappers. Returns (tr, Q, status, crash)."""
    tr = mon.Trace()
    logs = gen.Logs()
    tr.logs = logs
    status, crash, Q = 'ok', None, None
    old = signal.signal(signal.SIGALRM, _alarm)
    try:
        signal.alarm(wall)
        N, skw = gen.build(spec, logs, fault=fault)
        if spec.get('reuse_network'):
            # the Network object has already served another (short, unmonitored) Simulation: the monitored one must be as sound
            ciw.seed(spec['seed'] + 1)
            wkw = gen.sim_kwargs(spec)
            if spec.get('reuse_tracker') and 'tracker' in skw:
                wkw['tracker'] = skw['tracker']   # the tracker *object* has served another Simulation too (initialise() must reset it)
            W = mon.EventCapSim(N, **wkw)
            try:
                W.simulate_until_max_time(min(spec['run'].get('T') or 5.0, 5.0))
            except mon.EventCap:
                pass
            logs.slog.clear(); logs.rlog.clear(); logs.blog.clear()
        ciw.seed(spec['seed'])
        Q = (sim_class or mon.MonSim)(N, **skw)
        Q.attach(tr, cap=cap, tie_policy=spec.get('tie', 'native'), tie_seed=spec['seed'], tie_script=spec.get('tie_script'))
        run = spec['run']
        if run['method'] == 'time':
            for t_split in run.get('splits', []):   # the same run reached in several successive calls (pause / resume)
                Q.simulate_until_max_time(t_split)
            Q.simulate_until_max_time(run['T'])
        elif run['method'] == 'customers':
            Q.simulate_until_max_customers(run['n'], method=run['cmethod'])
            if run.get('again'):
                # the count is reached: the same call again has nothing to do and must simply return
                before = sum(1 for e in tr.events if e[0] == 'EVENT')
                Q.simulate_until_max_customers(run['n'], method=run['cmethod'])
                tr.again = (before, sum(1 for e in tr.events if e[0] == 'EVENT'))
        elif run['method'] == 'deadlock':
            Q.simulate_until_deadlock()
        else:
            raise ValueError(run['method'])
    except WallTimeout:
        status = 'timeout'
    except mon.EventCap:
        status = 'cap'
    except Exception as e:
        status = 'crash'
        tb = traceback.extract_tb(e.__traceback__)
        fr = [f for f in tb if os.sep + 'ciw' + os.sep in f.filename and 'ciwmon' not in f.filename]
        last = fr[-1] if fr else tb[-1]
        crash = (type(e).__name__, str(e)[:80], last.name, os.path.basename(last.filename))
    finally:
        signal.alarm(0)
        signal.signal(signal.SIGALRM, old)
    return tr, Q, status, crash


def collect_context(spec, tr, Q, status, cut, rec_total=None):
    """Everything oracles may need from the live objects, copied out (so oracles are pure)."""
    t_cut = cut['t'] if cut else None
    final_ok = (status == 'ok') and cut is None
    cx = dict(spec=spec, status=status, t_cut=t_cut, final_ok=final_ok, features=gen.features(spec), crash=None, final=None,
              records=[], where={}, inprogress=[], utilisation=[], overtime=[], history=None,
              state_probabilities=None, sched_interrupted={})
    if Q is None:
        return cx
    try:
        inds = []
        for nd in Q.transitive_nodes:
            for i in nd.all_individuals:
                inds.append((nd.id_number, i))
        for i in Q.nodes[-1].all_individuals:
            inds.append((-1, i))
        nrec = {}
        for e in tr.events:
            if e[0] == 'record': nrec[e[3]] = nrec.get(e[3], 0) + 1
        for loc, i in inds:
            recs = list(i.data_records)
            cx['where'][i.id_number] = (loc, recs, getattr(i, 'starting_node', None))
            hook_complete = rec_total is None or rec_total.get(i.id_number, 0) == len(recs)
            if not hook_complete:
                # records were written on a path that bypasses the hooked write_* methods (a refactor): the record log cannot
                # tell which records precede a cut. Uncut runs simply use all records; cut runs judge no records at all.
                tr.count('record_log_incomplete')
                if cut is not None: recs = []
            elif cut is not None:
                recs = recs[:nrec.get(i.id_number, 0)]   # only records written before the cut
            for r in recs:
                cx['records'].append((i.id_number, r))
        if final_ok:
            for nd in Q.transitive_nodes:
                if mon.has_real_servers(nd):
                    for sv in nd.servers:
                        if sv.cust:
                            cx['inprogress'].append((nd.id_number, sv.id_number, sv.cust.id_number, sv.cust.service_start_date))
                cx['utilisation'].append((nd.id_number, getattr(nd, 'server_utilisation', None), nd.c))
                cx['overtime'].append((nd.id_number, list(nd.overtime)))
            cx['history'] = [list(x) for x in Q.statetracker.history]
            cx['final'] = dict(snap=mon.snapshot(Q, Q.current_time, None, 'final'), clock=Q.current_time,
                               min_next=min(nd.next_event_date for nd in Q.nodes[:-1]))
            cx['state_probabilities'] = lambda w: Q.statetracker.state_probabilities(observation_period=w)
    except Exception as e:  # a corrupted final state must not kill the harness
        cx['collect_error'] = repr(e)
        cx['final_ok'] = False
    return cx


def apply_cut(tr, cut):
    """Drop everything from the start of the engine event in which the first trigger occurred."""
    gi = cut['group']
    idx = cut['event_index']
    start = max(i for i in range(idx + 1) if tr.events[i][0] == 'EVENT')
    tr.events = tr.events[:start]
    tr.snaps = tr.snaps[:gi + 1]


def evaluate(spec, props, cap=20000, wall=30):
    """Run + judge. Returns a JSON-able summary dict."""
    tr, Q, status, crash = run_spec(spec, cap=cap, wall=wall)
    n_events_total = sum(1 for e in tr.events if e[0] == 'EVENT')
    rec_total = {}
    for e in tr.events:
        if e[0] == 'record': rec_total[e[3]] = rec_total.get(e[3], 0) + 1
    cut = taint.scan(spec, tr)
    if cut is None and status in ('crash', 'timeout'):
        # the last engine event did not complete (no snapshot after it): what it wrote is not judged
        last = [i for i, e in enumerate(tr.events) if e[0] == 'EVENT']
        if last and len(last) == len(tr.snaps):
            cut = dict(finding=None, group=len(last) - 1, event_index=last[-1], t=tr.events[last[-1]][1], detail=('incomplete_event',))
    if cut:
        apply_cut(tr, cut)
    cx = collect_context(spec, tr, Q, status, cut, rec_total if status == 'ok' else None)
    cx['crash'] = crash
    cx['tainted'] = bool(cut and cut['finding'])
    cx['soft'] = taint.soft(spec, tr)
    old = signal.signal(signal.SIGALRM, _alarm)
    oracle_errors = []
    if cx.get('collect_error') and status == 'ok' and not cut:
        oracle_errors.append((props[0] if props else '*', 'COLLECT_ERROR ' + cx['collect_error']))
    for p in props:
        fn = oracles.ORACLES.get(p)
        if fn is None: continue
        try:
            signal.alarm(wall)
            fn(tr, cx)
        except WallTimeout:
            oracle_errors.append((p, 'ORACLE_TIMEOUT'))
        except Exception:
            oracle_errors.append((p, 'ORACLE_ERROR ' + traceback.format_exc()[-700:]))
        finally:
            signal.alarm(0)
    signal.signal(signal.SIGALRM, old)
    if tr.counters.get('hook_log_incomplete'):
        oracle_errors.append((props[0] if props else '*', 'HOOK_LOG_INCOMPLETE ' + repr(cx.get('hook_audit_witness'))))
    kinds = {}
    for e in tr.events:
        kinds[e[0]] = kinds.get(e[0], 0) + 1
    evtypes = {}
    for e in tr.events:
        if e[0] == 'EVENT': evtypes[e[3]] = evtypes.get(e[3], 0) + 1
    states = set(mon.abstract_state(s) for s in tr.snaps)
    viol = []
    seen = set()
    for (p, code, det) in tr.viol:
        if p not in props: continue
        if (p, code) in seen: continue
        seen.add((p, code))
        viol.append((p, code, _short(det)))
    tie_trace = list(getattr(Q, '_tie_trace', [])) if Q is not None else []
    return dict(seed=spec['seed'], tie_trace=tie_trace, status=status, crash=crash, taint=(cut['finding'] if cut else None), soft=sorted(cx['soft']),
                taint_detail=(cut.get('detail') if cut else None),
                events_total=n_events_total, events_judged=kinds.get('EVENT', 0), kinds=kinds, evtypes=evtypes,
                counters=tr.counters, ties=tr.ties, ind_ties=tr.ind_ties, tie_choices=len(tr.tie_choices),
                states=list(states), viol=viol, oracle_errors=oracle_errors,
                features=sorted(cx['features']), collect_error=cx.get('collect_error'))


def _short(x, lim=400):
    s = repr(x)
    return s if len(s) <= lim else s[:lim] + '...'


def spec_hash(spec):
    return hashlib.sha1(json.dumps(spec, sort_keys=True, default=str).encode()).hexdigest()[:12]
