"""Development tool: run one (profile, seed), print spec + violations."""
import sys, json
from . import core, profiles, gen, oracles
profile, seed = sys.argv[1], int(sys.argv[2])
tier = 'quick'
spec = profiles.make_spec(profile, seed, tier)
props = sys.argv[3].split(',') if len(sys.argv) > 3 else list(oracles.ORACLES)
if '-s' in sys.argv: print(json.dumps(spec, indent=None))
f = gen.features(spec)
props = [p for p in props if profiles.PLANS[p][1](spec, f)]
res = core.evaluate(spec, props)
print('status', res['status'], res['crash'], 'taint', res['taint'], res['taint_detail'], 'events', res['events_judged'], '/', res['events_total'])
print(sorted(f))
for v in res['viol']: print(v)
for e in res['oracle_errors']: print(e)
