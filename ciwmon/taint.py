"""Known-finding trigger scan over the intra-event log.

A trigger is an observable history pattern that is itself the first step of a recorded, unrepaired defect
(see /verif/known_findings.json). When a state-corrupting trigger is met the trace is cut at the start of
that engine event: everything before is judged normally, nothing after is judged.
Triggers are keyed by mechanism, never by seed or value.
"""
import json, os

HERE = os.path.dirname(os.path.abspath(__file__))
KF_PATH = os.path.join(os.path.dirname(HERE), 'known_findings.json')


def load_known():
    with open(KF_PATH) as f:
        return json.load(f)


def open_findings():
    # CIWMON_IGNORE_FINDINGS (development only): judge a candidate repair of an open finding as if the finding were fixed
    off = set(os.environ.get('CIWMON_IGNORE_FINDINGS', '').split(','))
    return {k['id']: k for k in load_known()['findings'] if k['status'] == 'open' and k['id'] not in off}


def scan(spec, tr):
    """Returns None or dict(finding, group, event_index, t, detail) for the first state-corrupting trigger."""
    active = open_findings()
    gi = -1
    for idx, e in enumerate(tr.events):
        k = e[0]
        if k == 'EVENT':
            gi += 1
            continue
        trig = None
        if k == 'interrupt' and e[4] and 'K2' in active:
            # (a narrower trigger - only the later restart of the still blocked customer - was tried: the tracker, the on-duty
            # count and the clock are already wrong at / right after the interruption itself, so the cut stays here)
            trig = 'K2'
        elif k == 'reroute_to' and e[4] == e[2] and 'K19' in active:
            trig = 'K19'
        elif k == 'join' and e[4] and 'K19' in active:
            trig = 'K19'     # a chain of reroutes brought a customer back into the node that is mid shift change / pre-emption
        if trig:
            return dict(finding=trig, group=gi, event_index=idx, t=e[1], detail=(k, e[1], e[2], e[3]))
    return None


def soft(spec, tr):
    """Statistics-only findings: returns {finding: payload} without cutting the trace."""
    active = open_findings()
    out = {}
    if 'K29' in active:
        nodes = {}
        for e in tr.events:
            if e[0] == 'jockey' and e[4] != -1 and e[5] >= e[6]:
                nodes.setdefault(e[4], e[1])     # node -> time of the first jockeying arrival into a full node
        if nodes: out['K29'] = nodes
    return out
