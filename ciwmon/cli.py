import sys, os, argparse


def main():
    ap = argparse.ArgumentParser()
    ap.add_argument('prop')
    ap.add_argument('--tier', default=os.environ.get('VERIF_TIER', 'quick'), choices=['quick', 'thorough'])
    ap.add_argument('--replay', default=None)
    a = ap.parse_args()
    vseed = int(os.environ.get('VERIF_SEED', '0') or 0)
    prop = a.prop.upper()
    from . import profiles
    if prop in profiles.PLANS:
        from . import tracecheck
        rc = tracecheck.main(prop, a.tier, vseed, a.replay)
    else:
        import importlib
        try:
            mod = importlib.import_module('ciwmon.special.' + prop.lower())
        except ImportError:
            print('unknown property', prop); sys.exit(2)
        rc = mod.main(a.tier, vseed, a.replay)
    sys.exit(rc)


if __name__ == '__main__':
    main()
