"""Hand-written directed scenarios. Every trace-based check runs all of them (subject to its scope predicate), so each
deciding monitor is reached on every run, and the reproducers of repaired defects stay as ordinary scenarios that must pass.
"""
import copy

INF = 'inf'


def det(v): return {'d': 'det', 'v': v}
def seq(*s): return {'d': 'seq', 's': list(s)}
def I(c): return {'kind': 'int', 'c': c}
def SCH(nums, ends, preempt=False, offset=0.0): return {'kind': 'schedule', 'nums': nums, 'ends': ends, 'preempt': preempt, 'offset': offset}
def SLOT(slots, sizes, cap=False, preempt=False, offset=0.0): return {'kind': 'slotted', 'slots': slots, 'sizes': sizes, 'capacitated': cap, 'preempt': preempt, 'offset': offset}


def mk(name, servers, arrivals, services, routing, classes=None, qcap=None, disciplines=None, node_class=None, T=50.0, seed=1, **kw):
    n = len(servers)
    classes = classes or ['C0']
    nodes = []
    for i in range(n):
        nodes.append({'node_class': (node_class or ['Node'] * n)[i], 'ps_threshold': kw.get('ps_thresholds', [1] * n)[i], 'servers': servers[i],
                      'qcap': (qcap or [INF] * n)[i], 'discipline': (disciplines or ['FIFO'] * n)[i], 'spf': kw.get('spf', [None] * n)[i]})
    def per_class(x):
        return x if isinstance(x, dict) else {classes[0]: x}
    spec = {'name': name, 'seed': seed, 'n': n, 'classes': classes, 'lattice': True, 'nodes': nodes,
            'priorities': kw.get('priorities'), 'prio_preempt': kw.get('prio_preempt'),
            'arrivals': per_class(arrivals), 'services': per_class(services),
            'batching': kw.get('batching'), 'reneging': kw.get('reneging'), 'baulking': kw.get('baulking'),
            'routing': routing if isinstance(routing, dict) and all(k in classes for k in routing) else {c: routing for c in classes},
            'ccm': kw.get('ccm'), 'cct': kw.get('cct'), 'syscap': kw.get('syscap'), 'exact': kw.get('exact', False),
            'share_objects': kw.get('share_objects', False), 'tracker': kw.get('tracker'), 'run': kw.get('run', {'method': 'time', 'T': T}), 'tie': kw.get('tie', 'native'), 'profile': 'pinned'}
    return spec


def TM(M): return {'r': 'tm', 'M': M}
def NR(*routers): return {'r': 'nr', 'routers': list(routers)}


ALL = [
    # overtime service ends during a zero-server shift and is blocked (repaired K4; also K15 overtime accounting)
    mk('overtime_blocked_zero_shift', [SCH([1, 0], [5, 100]), I(1)], [seq(1, 1000), seq(0.5, 1000)], [det(7), det(20)], TM([[0.0, 1.0], [0.0, 0.0]]),
       qcap=[INF, 0], tracker='NaiveBlocking'),
    mk('overtime_blocked_released_by_other_node', [SCH([1, 0], [5, 100]), I(1)], [seq(1, 1000), seq(0.5, 1000)], [det(3), det(20)], TM([[0.0, 1.0], [0.0, 0.0]]),
       qcap=[INF, 0], tracker='MatrixBlocking'),
    # pre-empted customer with expired patience (repaired K7)
    mk('preempted_with_expired_patience', [I(1)], {'A': [seq(4.0, 1000)], 'B': [seq(1.0, 1000)]}, {'A': [det(3)], 'B': [det(6)]}, TM([[0.0]]), classes=['A', 'B'],
       priorities={'A': 0, 'B': 1}, prio_preempt=['resume'], reneging={'A': [None], 'B': [det(2.0)]}, T=30.0),
    # renege while a class change is pending (repaired K13)
    mk('renege_with_pending_class_change', [I(1)], {'A': [seq(1.0, 1.0, 1000)], 'B': [None]}, {'A': [det(10)], 'B': [det(10)]}, TM([[0.0]]), classes=['A', 'B'],
       reneging={'A': [det(3.0)], 'B': [None]}, cct={'A': {'B': det(5.0)}}, tracker='NodeClassMatrix', T=20.0),
    # class change after service, then renege / class tracker at the next node (repaired K6, K11)
    mk('class_change_then_renege_next_node', [I(1), I(1)], {'A': [det(1.0), None], 'B': [None, None]}, {'A': [det(0.5), det(10)], 'B': [det(0.5), det(10)]},
       TM([[0.0, 1.0], [0.0, 0.0]]), classes=['A', 'B'], priorities={'A': 0, 'B': 1},
       ccm=[{'A': {'A': 0.0, 'B': 1.0}, 'B': {'A': 0.0, 'B': 1.0}}, {'A': {'A': 1.0, 'B': 0.0}, 'B': {'A': 0.0, 'B': 1.0}}],
       reneging={'A': [None, det(3.0)], 'B': [None, det(3.0)]}, tracker='NodeClassMatrix', T=20.0),
    mk('class_change_with_blocking_tracker', [I(1), I(1)], {'A': [det(1.0), None], 'B': [None, None]}, {'A': [det(0.5), det(1.75)], 'B': [det(0.5), det(1.75)]},
       TM([[0.0, 1.0], [0.0, 0.0]]), classes=['A', 'B'], qcap=[INF, 0],
       ccm=[{'A': {'A': 0.0, 'B': 1.0}, 'B': {'A': 0.0, 'B': 1.0}}, {'A': {'A': 1.0, 'B': 0.0}, 'B': {'A': 0.0, 'B': 1.0}}], tracker='NodeClassMatrix', T=20.0),
    # priority pre-emption while the only other customer in service is blocked (repaired K3)
    mk('preempt_with_blocked_in_service', [I(1), I(1)], {'A': [seq(3.0, 1000), None], 'B': [seq(1.0, 1000), seq(0.5, 1000)]},
       {'A': [det(1), det(1)], 'B': [det(1), det(10)]}, TM([[0.0, 1.0], [0.0, 0.0]]), classes=['A', 'B'], qcap=[INF, 0],
       priorities={'A': 0, 'B': 1}, prio_preempt=['resume', False], T=40.0),
    # processor sharing with a blocked customer (repaired K20)
    mk('ps_with_blocked_customer', [{'kind': 'inf'}, I(1)], [seq(1.0, 2.0, 1000), seq(0.5, 1000)], [det(1), det(10)], TM([[0.0, 1.0], [0.0, 0.0]]),
       qcap=[INF, 0], node_class=['PS', 'Node'], T=40.0),
    # priority pre-emption next to an overtime server (repaired K24)
    mk('preempt_with_overtime_server', [SCH([2, 1], [5, 100])], {'A': [seq(6.0, 0.5, 1000)], 'B': [seq(1.0, 1.0, 1000)]}, {'A': [det(2)], 'B': [det(10)]}, TM([[0.0]]),
       classes=['A', 'B'], priorities={'A': 0, 'B': 1}, prio_preempt=['resume'], T=90.0),
    # overtime across two shift changes (repaired K25)
    mk('overtime_across_two_shift_changes', [SCH([1, 0, 1], [3, 6, 100])], [seq(1.0, 1000)], [det(6.5)], TM([[0.0]]), T=50.0),
    # previously pre-empted customer pre-empts in turn after a class change while waiting (repaired K26, K27)
    mk('preempted_then_preempts_after_class_change', [I(2)], {'A': [seq(2.0, 1000)], 'B': [seq(1.5, 1000)], 'C': [seq(1.0, 1000)]},
       {'A': [det(10)], 'B': [seq(4.0, 7.0, 7.0)], 'C': [det(20)]}, TM([[0.0]]), classes=['A', 'B', 'C'],
       priorities={'A': 0, 'B': 1, 'C': 1}, prio_preempt=['restart'], cct={'B': {'A': det(3.0)}}, T=100.0),
    mk('class_change_preempt_keeps_queue_order', [SCH([1, 0, 1], [5, 8, 100], preempt='resume')], {'H': [seq(6.0, 1000)], 'L': [seq(1.0, 1000)], 'X': [seq(7.0, 1000)]},
       {'H': [det(3)], 'L': [det(10)], 'X': [det(3)]}, TM([[0.0]]), classes=['H', 'L', 'X'], priorities={'H': 0, 'L': 1, 'X': 1}, prio_preempt=['resume'],
       cct={'X': {'H': det(2.0)}}, T=60.0),
    mk('arrival_preempt_keeps_queue_order', [SCH([1, 0, 1], [5, 8, 100], preempt='resume')], {'H': [seq(6.0, 3.0, 1000)], 'L': [seq(1.0, 1000)]},
       {'H': [det(3)], 'L': [det(10)]}, TM([[0.0]]), classes=['H', 'L'], priorities={'H': 0, 'L': 1}, prio_preempt=['resume'], T=60.0),
    # first arrival at time 0 at a slotted node (repaired K28)
    mk('arrival_at_time_zero_slotted', [SLOT([1.0, 2.0], [1, 1])], [seq(0.0, 2.0, 1000)], [det(0.5)], TM([[0.0]]), T=10.0),
    mk('arrival_at_time_zero_plain', [I(1)], [seq(0.0, 2.0, 3.0)], [det(1.5)], TM([[0.5]]), T=30.0),
    # class-change-time distributions on two nodes (repaired K1); zero-server shift + priority pre-emption + class change (repaired K22)
    mk('class_change_time_two_nodes', [I(1), I(1)], {'A': [det(1.0), det(1.5)], 'B': [det(2.0), None]}, {'A': [det(0.75), det(0.75)], 'B': [det(0.75), det(0.75)]},
       TM([[0.0, 0.5], [0.0, 0.0]]), classes=['A', 'B'], cct={'A': {'B': det(1.0)}}, T=20.0),
    mk('class_change_in_zero_server_shift', [SCH([0, 1], [10, 20])], {'A': [None], 'B': [seq(1.0, 1000)]}, {'A': [det(3)], 'B': [det(6)]}, TM([[0.0]]), classes=['A', 'B'],
       priorities={'A': 0, 'B': 1}, prio_preempt=['resume'], cct={'B': {'A': det(2.0)}}, T=30.0),
    # reroute pre-emption feeding a join-shortest-queue decision (repaired K16a), PS node as JSQ destination (repaired K16b)
    mk('reroute_then_jsq', [I(1), I(1), I(1)], {'A': [None, seq(4.5, 1000), None], 'B': [det(1.0), seq(3.0, 1000), None]},
       {'A': [det(0.25), det(5), det(3)], 'B': [det(0.25), det(5), det(3)]},
       {'A': NR({'k': 'jsq', 'dests': [2, 3], 'tie': 'order'}, {'k': 'leave'}, {'k': 'leave'}), 'B': NR({'k': 'jsq', 'dests': [2, 3], 'tie': 'order'}, {'k': 'direct', 'to': 3}, {'k': 'leave'})},
       classes=['A', 'B'], priorities={'A': 0, 'B': 1}, prio_preempt=[False, 'reroute', False], T=30.0),
    mk('jsq_into_ps_nodes', [I(1), I(2), I(2)], [det(0.5), None, None], [det(0.1), det(1.3), det(1.7)],
       NR({'k': 'jsq', 'dests': [2, 3], 'tie': 'order'}, {'k': 'leave'}, {'k': 'leave'}), node_class=['Node', 'PS', 'PS'], T=30.0),
    # two-node blocking ring, multi-server, deterministic (Type I blocking, FIFO unblocking)
    mk('blocking_ring', [I(2), I(1), I(1)], [det(0.5), None, None], [det(0.4), seq(1.5, 2.5, 0.5), seq(2.0, 1.0)],
       TM([[0.0, 0.5, 0.5], [0.25, 0.0, 0.25], [0.0, 0.5, 0.0]]), qcap=[2, 1, 0], tracker='MatrixBlocking', T=60.0, seed=7),
    mk('blocking_tandem_priorities', [I(1), I(1), I(1)], {'A': [det(1.0), det(1.5), None], 'B': [det(1.25), None, None]}, {'A': [det(0.5), det(0.5), det(2.0)], 'B': [det(0.5), det(0.5), det(2.5)]},
       TM([[0.0, 0.0, 1.0], [0.0, 0.0, 1.0], [0.0, 0.0, 0.0]]), classes=['A', 'B'], priorities={'A': 0, 'B': 1}, qcap=[1, 1, 1], tracker='NaiveBlocking', T=60.0),
    # reneging x blocking: a renege frees a place for a customer blocked to that node
    mk('renege_unblocks', [I(1), I(1)], [seq(1.0, 1.0, 1.0, 1000), None], [det(1.0), det(8.0)], TM([[0.0, 1.0], [0.0, 0.0]]), qcap=[INF, 1],
       reneging={'C0': [None, det(4.0)]}, tracker='NaiveBlocking', T=40.0),
    # service disciplines with priorities on a D/D/2 grid; LIFO and SIRO; schedule with several cycles
    mk('ddc_priorities_lifo', [I(2)], {'A': [det(0.5)], 'B': [det(0.75)]}, {'A': [seq(1.5, 0.5, 2.0)], 'B': [seq(1.0, 2.5)]}, TM([[0.25]]), classes=['A', 'B'],
       priorities={'A': 1, 'B': 0}, disciplines=['LIFO'], T=40.0, seed=3),
    mk('schedule_cycles_siro', [SCH([1, 0, 2], [2, 3, 5], offset=0.5)], [det(0.5)], [seq(0.5, 1.5, 1.0)], TM([[0.0]]), disciplines=['SIRO'], T=40.0, seed=5),
    mk('schedule_preemptive_cycles', [SCH([2, 1, 0], [2, 4, 5], preempt='restart')], {'A': [det(0.75)], 'B': [det(1.0)]}, {'A': [seq(1.5, 2.5)], 'B': [seq(2.0, 0.5)]}, TM([[0.0]]),
       classes=['A', 'B'], priorities={'A': 0, 'B': 1}, T=40.0, seed=5),
    mk('slotted_capacitated_preempt', [SLOT([1.0, 2.5, 3.0], [2, 1, 3], cap=True, preempt='resume')], [det(0.5)], [seq(1.25, 2.75, 0.5)], TM([[0.0]]), T=40.0),
    # capacities: node capacity 0 queue, system capacity, batches, baulking
    mk('capacity_batches', [I(1), I(2)], [seq(1.0, 0.5), det(2.0)], [det(1.5), det(2.5)], TM([[0.0, 0.5], [0.0, 0.0]]), qcap=[1, 0], syscap=4,
       batching={'C0': [seq(1, 3, 0, 2), det(2)]}, baulking={'C0': [{'b': 'thresh', 'k': 2}, None]}, T=40.0, seed=2),
    # reneging with jockeying to another node
    mk('renege_and_jockey', [I(1), I(1)], [det(1.0), None], [det(3.0), det(0.5)], NR({'k': 'jockey', 'to': 2}, {'k': 'leave'}), reneging={'C0': [det(1.5), None]}, T=30.0),
    mk('jockey_to_full_node', [I(1), I(1)], [det(1.0), seq(0.25, 1000)], [det(3.0), det(50.0)], NR({'k': 'jockey', 'to': 2}, {'k': 'leave'}), qcap=[INF, 0],
       reneging={'C0': [det(1.5), None]}, T=30.0),
    mk('class_change_back_and_forth_tracker', [I(1)], {'A': [det(1.0)], 'B': [None]}, {'A': [det(1.75)], 'B': [det(1.75)]}, TM([[0.25]]), classes=['A', 'B'],
       ccm=[{'A': {'A': 1.0, 'B': 0.0}, 'B': {'A': 1.0, 'B': 0.0}}], cct={'A': {'B': det(0.5)}}, tracker='NodeClassMatrix', T=30.0, seed=4),
    # process-based and flexible process-based routes
    mk('process_based', [I(1), I(1), I(2)], [det(1.0), None, None], [det(0.5), det(0.75), det(1.0)], {'r': 'pb', 'routes': [[2, 3], [3], [2, 3, 2]]}, T=30.0),
    mk('flexible_all_jsq', [I(1), I(1), I(1)], [det(1.0), None, None], [det(0.5), det(1.75), det(1.0)], {'r': 'fpb', 'routes': [[[2, 3]], [[3, 2], [1]], [[2]]], 'rule': 'all', 'choice': 'jsq'}, T=30.0),
    # exact arithmetic with reneging and an idle second server (repaired K5a, K5b)
    mk('exact_reneging_idle_server', [I(2)], [det(4.0)], [det(1.0)], TM([[0.0]]), reneging={'C0': [det(2.5)]}, exact=14, T=20.0),
    # one distribution object handed to several slots: every (node, class) stream still consumes its own copy
    mk('shared_distribution_objects', [I(1), I(2)], [seq(1.0, 2.0, 4.0), seq(1.0, 2.0, 4.0)], [seq(0.5, 1.5, 0.25), seq(0.5, 1.5, 0.25)], TM([[0.0, 0.0], [0.0, 0.0]]),
       batching={'C0': [seq(1, 2, 1, 3), seq(1, 2, 1, 3)]}, share_objects=True, T=40.0),
    # reproducers of the two open state-corrupting findings: every check in whose scope they lie meets the trigger on every run
    # and prints its KNOWN-FINDING line (the run is judged up to the trigger)
    mk('K2_preemptive_shift_end_hits_blocked_customer', [SCH([1, 0, 1], [8, 20, 100], preempt='resume'), I(1)],
       {'A': [seq(5.0, 1000), seq(1.0, 1000)], 'B': [None, None]}, {'A': [det(1), det(11)], 'B': [det(1), det(1)]}, TM([[0.0, 1.0], [0.0, 0.0]]),
       classes=['A', 'B'], priorities={'A': 0, 'B': 1}, prio_preempt=[False, 'resume'], qcap=[INF, 0], tracker='NaiveBlocking', T=40.0),
    mk('K19_reroute_back_into_the_rerouting_node', [I(1)], {'A': [seq(2.0, 1000)], 'B': [seq(1.0, 1000)]}, {'A': [det(2)], 'B': [det(5)]},
       {'A': TM([[0.0]]), 'B': TM([[1.0]])}, classes=['A', 'B'], priorities={'A': 0, 'B': 1}, prio_preempt=['reroute'], tracker='NodePopulation', T=20.0),
    # thousands of cycles of a timetable whose dates are not exactly representable: boundary dates must not drift (C12)
    mk('long_nondyadic_schedule', [SCH([1, 0], [0.7, 1.1], preempt='resume', offset=0.3)], [det(37.3)], [det(0.9)], TM([[0.0]]), T=2500.0),
    mk('long_nondyadic_slots', [SLOT([0.7, 1.1], [1, 1], offset=0.3)], [det(41.7)], [det(0.2)], TM([[0.0]]), T=2500.0),
    # stop by customer count
    mk('count_complete_with_reneging', [I(1)], [det(1.0)], [det(2.5)], TM([[0.0]]), reneging={'C0': [det(2.0)]}, run={'method': 'customers', 'n': 6, 'cmethod': 'Complete', 'T': 0}),
    # an arrival stream that ends (an infinite inter-arrival time): the count is reached only by the very last customer in the system
    mk('finite_arrivals_count_reached_by_last_customer', [I(1)], [seq(1.0, 1.0, 1.0, 1.0, float('inf'))], [det(2.5)], TM([[0.0]]), run={'method': 'customers', 'n': 4, 'cmethod': 'Complete', 'T': 0}),
    mk('finite_arrivals_finish_count_two_nodes', [I(1), I(2)], [seq(0.5, 1.0, 1.0, float('inf')), None], [det(2.0), det(1.5)], TM([[0.0, 1.0], [0.0, 0.0]]), run={'method': 'customers', 'n': 3, 'cmethod': 'Finish', 'T': 0}),
    mk('finite_arrivals_time_run', [I(1)], [seq(1.0, 1.0, 1.0, float('inf'))], [det(2.5)], TM([[0.0]]), T=30.0),
    mk('count_accept_with_baulking', [I(1)], [det(1.0)], [det(2.5)], TM([[0.0]]), baulking={'C0': [{'b': 'thresh', 'k': 2}]}, run={'method': 'customers', 'n': 6, 'cmethod': 'Accept', 'T': 0}),
]
PINNED = {}


def count(prop):
    return len(ALL)


def get(prop, k):
    return copy.deepcopy(ALL[k])


def explorable():
    """Indices of the pinned scenarios that are deterministic apart from tie resolutions (lattice times, no random routing /
    probabilistic choices of their own): the tie explorer enumerates resolutions of these."""
    names = {'blocking_ring', 'blocking_tandem_priorities', 'renege_unblocks', 'ddc_priorities_lifo', 'schedule_preemptive_cycles',
             'capacity_batches', 'class_change_time_two_nodes', 'reroute_then_jsq', 'slotted_capacitated_preempt', 'renege_and_jockey',
             'overtime_blocked_zero_shift', 'preempt_with_overtime_server'}
    return [k for k, sp in enumerate(ALL) if sp['name'] in names]
