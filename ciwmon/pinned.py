"""Hand-written directed scenarios per property (guarantee that each deciding monitor is reached)."""
PINNED = {}


def count(prop):
    return len(PINNED.get(prop, []))


def get(prop, k):
    import copy
    return copy.deepcopy(PINNED[prop][k])
