"""C19 Processor sharing: reference fluid model of limited / capacitated PS + comparison with a FIFO single server.

(1) every PS node of a generated network (PS nodes with ordinary infinite-capacity nodes around them): the observed
    arrival instants at the PS node and the logged requirements are fed to an independent fluid simulator
    (rate min(1, R/k), at most `capacity` in service, FCFS admission); every customer's service start and exit must
    match the records.
(2) unlimited PS (capacity inf, threshold 1) vs the real ciw.Node FIFO single server replaying the same arrivals and
    requirements through Sequential distributions: the instants at which the node becomes empty coincide.
"""
import sys, os, random, collections
import ciw
from .. import gen, runner
from .common import CapSim, guarded, Summary

INF = float('inf')
BUDGET = {'quick': 320, 'thorough': 8000}


def ps_oracle(arrivals, cap, R):
    """arrivals: list of (t, id, requirement) in arrival order. Returns {id: (start, end)} for completed ones (finite horizon ignored)."""
    pending = list(arrivals); pi = 0
    inserv = {}; queue = []; res = {}; start = {}
    t = 0.0
    req = {a[1]: a[2] for a in arrivals}
    guard = 0
    while pi < len(pending) or inserv:
        guard += 1
        if guard > 10 ** 6: break
        k = len(inserv)
        rate = min(1.0, R / k) if k else 0.0
        if k:
            cid_min = min(inserv, key=lambda c: (inserv[c], c)); tc = t + inserv[cid_min] / rate
        else: tc = INF
        ta = pending[pi][0] if pi < len(pending) else INF
        if ta == INF and tc == INF: break
        if ta <= tc:
            dt = ta - t
            for c in inserv: inserv[c] -= dt * rate
            t = ta
            _, cid, rq = pending[pi]; pi += 1
            if len(inserv) < cap:
                if rq is None: break   # requirement unknown (never started in the real run): nothing after this is comparable
                inserv[cid] = rq; start[cid] = t
            else: queue.append(cid)
        else:
            dt = tc - t
            for c in inserv: inserv[c] -= dt * rate
            t = tc
            del inserv[cid_min]; res[cid_min] = (start[cid_min], t)
            if queue:
                c = queue.pop(0)
                if req[c] is None: break
                inserv[c] = req[c]; start[c] = t
    return res


def make_spec(seed):
    r = random.Random(seed)
    n = r.choice([1, 1, 2, 3])
    lattice = r.random() < 0.25
    def td(scale):
        if lattice: return {'d': 'seq', 's': [r.randint(1, 5) * 0.5 * scale for _ in range(r.randint(2, 4))]}
        return r.choice([{'d': 'exp', 'rate': round(r.uniform(0.5, 3) / scale, 3)}, {'d': 'uni', 'a': round(0.1 * scale, 3), 'b': round(r.uniform(0.5, 2.0) * scale, 3)},
                         {'d': 'gamma', 'shape': round(r.uniform(0.6, 3), 2), 'scale': round(0.5 * scale, 3)}])
    nodes = []
    for i in range(n):
        if i == 0 or r.random() < 0.6:
            nodes.append({'ps': True, 'cap': r.choice(['inf', 1, 2, 3, 5]), 'R': r.choice([1, 1, 2, 3, 1.5, 2.5])})
        else:
            nodes.append({'ps': False, 'c': r.choice([1, 2, 'inf'])})
    arr = [td(1.0) if (i == 0 or r.random() < 0.5) else None for i in range(n)]
    srv = [td(0.7) for _ in range(n)]
    M = []
    for i in range(n):
        w = [r.choice([0, 0, 1]) for _ in range(n)]; tot = sum(w) + r.choice([1, 2])
        M.append([round(x / tot * 0.999, 4) if x else 0.0 for x in w])
    if n == 1 and r.random() < 0.6: M = [[0.0]]
    return dict(seed=seed, n=n, nodes=nodes, arrivals=arr, services=srv, routing=M, lattice=lattice, T=r.choice([30.0, 60.0]))


def build(spec, slog):
    n = spec['n']
    arr = [gen.LogDist(gen.make_dist(d), ('arr', i + 1, 'Customer'), slog) if d else None for i, d in enumerate(spec['arrivals'])]
    srv = [gen.LogDist(gen.make_dist(d), ('srv', i + 1, 'Customer'), slog) for i, d in enumerate(spec['services'])]
    servers = [(INF if nd['cap'] == 'inf' else nd['cap']) if nd['ps'] else (INF if nd['c'] == 'inf' else nd['c']) for nd in spec['nodes']]
    N = ciw.create_network(arrival_distributions=arr, service_distributions=srv, number_of_servers=servers,
                           routing=[list(r) for r in spec['routing']], ps_thresholds=[nd.get('R', 1) for nd in spec['nodes']])
    ncl = [ciw.PSNode if nd['ps'] else ciw.Node for nd in spec['nodes']]
    return N, ncl


def worker(job, extra):
    seed = job['seed']
    spec = job.get('spec') or make_spec(seed)
    res = {'job': job, 'seed': seed, 'viol': [], 'compared': 0, 'worst': 0.0, 'fifo_compared': 0,
           'sig': repr((spec['n'], [(nd.get('cap'), nd.get('R'), nd.get('c')) for nd in spec['nodes']], spec['lattice']))}
    slog = []

    def go():
        N, ncl = build(spec, slog)
        ciw.seed(seed)
        Q = CapSim(N, node_class=ncl); Q._cap = 30000
        Q.simulate_until_max_time(spec['T'])
        return Q
    Q, st, cr = guarded(go, 60)
    res['status'] = st
    if st == 'crash':
        res['viol'].append(('crash', repr(cr)))
    if st != 'ok':
        if res['viol']: res['spec'] = spec
        return res
    inds = [i for nd in Q.nodes[1:] for i in nd.all_individuals]
    reqs = collections.defaultdict(list)
    for (stream, t, ind, v) in slog:
        if stream[0] == 'srv': reqs[(ind, stream[1])].append((t, v))
    for nid0, nd in enumerate(spec['nodes']):
        if not nd['ps']: continue
        nid = nid0 + 1
        cap = INF if nd['cap'] == 'inf' else nd['cap']; R = nd['R']
        visits = []   # (arrival, order, key, requirement or None, record or None)
        for i in inds:
            rs = [r for r in i.data_records if r.node == nid and r.record_type == 'service']
            samples = list(reqs.get((i.id_number, nid), []))
            for k, r in enumerate(rs):
                rq = [x for x in samples if x[0] == r.service_start_date]
                if not rq:
                    res['viol'].append(('ps_service_without_sample', (i.id_number, nid, r.service_start_date))); continue
                samples.remove(rq[0])
                visits.append((r.arrival_date, i.id_number, (i.id_number, k), rq[0][1], r))
            if i.node == nid and i.arrival_date is not False:   # still at the PS node at the end
                rq = samples[-1][1] if samples and getattr(i, 'with_server', False) else None
                visits.append((i.arrival_date, i.id_number, (i.id_number, len(rs)), rq, None, i.service_start_date))
        # order of simultaneous arrivals: engine list order is id order of acceptance; use (time, engine arrival sequence)
        # simultaneous arrivals: their place in line is a free tie-break of the engine; take the order it chose (visible as
        # the order of their recorded service starts) so that the model follows one legal resolution
        def started(v):
            if v[4] is not None: return float(v[4].service_start_date)
            if len(v) > 5 and v[5] is not False: return float(v[5])     # still in service at the end of the run
            return INF
        visits.sort(key=lambda v: (v[0], started(v), v[2][1], v[1]))
        exp = ps_oracle([(v[0], v[2], v[3]) for v in visits], cap, R)
        # simultaneous events (two arrivals, or an arrival and a completion, at one instant) leave the order undetermined
        ev_times = sorted([float(v[0]) for v in visits] + [float(x[1]) for x in exp.values()])
        tie_times = [a_ for a_, b_ in zip(ev_times, ev_times[1:]) if abs(a_ - b_) < 1e-9]
        for v in visits:
            r = v[4]
            if r is None or v[2] not in exp: continue
            s, e = exp[v[2]]
            err = max(abs(s - r.service_start_date), abs(e - r.exit_date))
            res['compared'] += 1
            if err > 1e-6:
                res['viol'].append(('ps_trajectory_mismatch', (nid, v[2], (s, e), (r.service_start_date, r.exit_date), cap, R)))
                break
            res['worst'] = max(res['worst'], err)
        # nobody stays behind: a customer still at the node at the end although the model released it long before
        for v in visits:
            if v[4] is None and v[2] in exp and exp[v[2]][1] < spec['T'] - 5.0:
                res['viol'].append(('ps_customer_never_left', (nid, v[2], exp[v[2]], spec['T']))); break
        # at most `cap` in service: records' [start, exit) intervals overlap at most cap deep
        evs = []
        for v in visits:
            if v[4] is not None: evs += [(v[4].service_start_date, 1), (v[4].exit_date, -1)]
        evs.sort(key=lambda x: (x[0], x[1]))
        depth = 0
        for t, dlt in evs:
            depth += dlt
            if depth > cap:
                res['viol'].append(('more_than_capacity_in_service', (nid, t, depth, cap))); break
        # (2) unlimited PS, single node networks: same emptying instants as FIFO M/G/1 replay on the real ciw.Node
        # (feedback makes arrivals coincide with departures up to rounding: only exogenous arrivals are compared)
        if spec['n'] == 1 and cap == INF and R == 1 and visits and not spec['lattice'] and spec['routing'][0][0] == 0.0:
            done = [v for v in visits if v[4] is not None and v[3] is not None]
            known = [v for v in visits if v[3] is not None]
            if len(known) >= 3 and len(known) == len(visits):
                arrs = [v[0] for v in visits]
                ia = [arrs[0]] + [b - a for a, b in zip(arrs, arrs[1:])] + [10 ** 9]
                rq = [v[3] for v in visits] + [1.0]

                def fifo():
                    N2 = ciw.create_network(arrival_distributions=[ciw.dists.Sequential(ia)], service_distributions=[ciw.dists.Sequential(rq)], number_of_servers=[1])
                    ciw.seed(0)
                    Q2 = CapSim(N2); Q2._cap = 30000
                    Q2.simulate_until_max_time(spec['T'])
                    return Q2
                Q2, st2, cr2 = guarded(fifo, 40)
                if st2 == 'ok':
                    def empties(recs, arrivals):
                        # an arrival at the very instant of a departure (feedback) is not an emptying instant: arrivals first
                        ev = sorted([(a, 1) for a in arrivals] + [(r.exit_date, -1) for r in recs], key=lambda x: (x[0], -x[1]))
                        out = []; d = 0
                        for t, dl in ev:
                            d += dl
                            if d == 0: out.append(t)
                        return out
                    e_ps = empties([v[4] for v in done], arrs)
                    recs2 = [r for r in Q2.get_all_records() if r.record_type == 'service']
                    arrs2 = sorted([r.arrival_date for r in recs2] + [i.arrival_date for i in Q2.nodes[1].all_individuals])
                    e_ff = empties(recs2, arrs2)
                    m = min(len(e_ps), len(e_ff))
                    res['fifo_compared'] += m
                    bad = [(a, b) for a, b in zip(e_ps[:m], e_ff[:m]) if abs(a - b) > 1e-6]
                    if bad or abs(len(e_ps) - len(e_ff)) > 1:
                        res['viol'].append(('ps_vs_fifo_emptying_instants', (bad[:3], len(e_ps), len(e_ff))))
    if res['viol']: res['spec'] = spec
    res['sample'] = {'seed': seed, 'nodes': spec['nodes'], 'T': spec['T'], 'lattice': spec['lattice'], 'customers_compared': res['compared'], 'worst_abs_error': res['worst']}
    return res


def main(tier, vseed, replay=None):
    S = Summary('C19', tier, vseed)
    if replay:
        import json
        jobs = [json.load(open(replay))['job']]
    else:
        jobs = [{'seed': vseed * 1000003 + k} for k in range(BUDGET[tier])]
    results, failures = runner.run_shards('ciwmon.special.c19', jobs, {}, 900 if tier == 'quick' else 4 * 3600)
    worst = 0.0
    for r in results:
        if 'harness_error' in r:
            S.harness_errors.append(r['harness_error'][-300:]); continue
        S.counters['runs'] += 1
        S.counters['status_' + r['status']] += 1
        S.counters['customers_compared_with_fluid_model'] += r['compared']
        S.counters['emptying_instants_compared_with_fifo'] += r['fifo_compared']
        worst = max(worst, r['worst'])
        if r['compared'] > 0:
            S.sigs.add(r['sig'])
            if len(S.samples) < 4: S.samples.append(r['sample'])
        for code, w in r['viol']:
            S.viol.append((code, {'job': dict(r['job'], spec=r.get('spec')), 'spec': r.get('spec'), 'witness': w}))
        if replay: print(r['viol'])
    return S.finish(
        rule="generated networks of 1-3 nodes with PS nodes (capacity inf/1/2/3/5, threshold 1, 2, 3 or fractional 1.5, 2.5) and ordinary infinite-capacity nodes; per PS node the "
             "observed arrivals + logged requirements drive an independent fluid model; non-trivial = at least one customer compared; distinct = (nodes, "
             "capacities, thresholds, lattice)",
        level='exploration', deciding='customers_compared_with_fluid_model', replay=bool(replay), failures=failures,
        extra_cov={'traces_validated_against_impl': int(S.counters['customers_compared_with_fluid_model']), 'worst_abs_error': worst},
        assumptions=["no blocking into / out of PS nodes (quantifier)", "float accumulation differences below 1e-6 are not violations",
                     "the place in line of simultaneous arrivals at a capacity-limited PS node is taken from the engine's own recorded service starts (a free tie-break)"])


if __name__ == '__main__':
    if len(sys.argv) >= 4 and sys.argv[1] == '--shard':
        runner.shard_main(sys.argv[2:4], worker)
