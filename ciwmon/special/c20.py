"""C20 Exact arithmetic mode.

(i)   types: every date / duration field of every record is a Decimal (or NaN).
(ii)  decimal-grid workloads (all samples multiples of 0.1; schedule boundaries on a binary-exact 0.5 grid): every date is an exact
      multiple of 0.1, and a single-node FIFO c-server scenario is recomputed with fractions.Fraction and must agree exactly
      (so mathematically coincident events coincide: 0.1+0.2 == 0.3).
(iii) tie-free workloads: the exact run equals the float run up to rounding at the chosen precision.
Open finding K23: Schedule / Slotted boundaries are floats; a boundary that is not binary-exact (e.g. 1.6) enters as Decimal(float).
A drift at a network with such boundaries is attributed to K23; everything else is judged.
"""
import sys, random, collections, math
from decimal import Decimal
from fractions import Fraction
import ciw
from .. import gen, runner
from .common import reaches_open_finding, CapSim, guarded, Summary, all_individuals

INF = float('inf')
BUDGET = {'quick': 360, 'thorough': 8000}
FIELDS = ('arrival_date', 'waiting_time', 'service_start_date', 'service_time', 'service_end_date', 'time_blocked', 'exit_date')


def isnan(x):
    return isinstance(x, float) and x != x


def make_grid_spec(seed):
    r = random.Random(seed)
    n = r.choice([1, 1, 2, 3])
    def d():
        return {'d': 'seq', 's': [r.randint(1, 9) / 10 for _ in range(r.randint(1, 4))]}
    mode = r.choice(['plain', 'plain', 'sched_binary', 'sched_decimal', 'single_fifo'])
    if mode == 'single_fifo': n = 1
    servers = []
    for i in range(n):
        if mode.startswith('sched') and r.random() < 0.7:
            ends = []; t = 0
            grid = 5 if mode == 'sched_binary' else 1   # tenths
            for _ in range(r.randint(1, 3)):
                t += r.randint(1, 4) * grid if mode == 'sched_binary' else r.randint(1, 20)
                ends.append(t / 10)
            servers.append({'kind': 'schedule', 'nums': [r.randint(0, 2) for _ in ends], 'ends': ends, 'preempt': r.choice([False, 'resume', 'restart']), 'offset': 0.0})
            if sum(servers[-1]['nums']) == 0: servers[-1]['nums'][0] = 1
        else:
            servers.append({'kind': 'int', 'c': r.choice([1, 2, 3])} if r.random() < 0.85 or mode == 'single_fifo' else {'kind': 'inf'})
    ren = r.random() < 0.3 and mode != 'single_fifo'
    prio = r.random() < 0.3 and mode != 'single_fifo'
    classes = ['C0', 'C1'] if prio else ['C0']
    spec = dict(seed=seed, n=n, classes=classes, mode=mode, k=r.choice([10, 12, 14, 20, 26]), T=30.0,
                servers=servers,
                arrivals={c: [d() if (i == 0 or r.random() < 0.5) else None for i in range(n)] for c in classes},
                services={c: [d() for _ in range(n)] for c in classes},
                routing=[[r.choice([0.0, 0.3]) if mode != 'single_fifo' else 0.0 for _ in range(n)] for _ in range(n)],
                reneging=({c: [{'d': 'seq', 's': [r.randint(1, 9) / 10, 0.5]} for _ in range(n)] for c in classes} if ren else None),
                priorities=({'C0': 0, 'C1': 1} if prio else None))
    return spec


def build(spec):
    classes = spec['classes']
    kw = dict(arrival_distributions={c: [gen.make_dist(x) for x in spec['arrivals'][c]] for c in classes},
              service_distributions={c: [gen.make_dist(x) for x in spec['services'][c]] for c in classes},
              number_of_servers=[gen.make_servers(s) for s in spec['servers']],
              routing={c: [list(r) for r in spec['routing']] for c in classes})
    if spec['reneging']: kw['reneging_time_distributions'] = {c: [gen.make_dist(x) for x in spec['reneging'][c]] for c in classes}
    if spec['priorities']: kw['priority_classes'] = dict(spec['priorities'])
    return ciw.create_network(**kw)


def fifo_reference(arr_seq, srv_seq, c, T):
    """Rational recomputation of a single-node FIFO c-server queue with cyclic Sequential inter-arrival / service times."""
    A = [Fraction(str(x)) for x in arr_seq]; S = [Fraction(str(x)) for x in srv_seq]
    t = Fraction(0); k = 0; out = []
    free = [Fraction(0)] * c
    si = 0
    while True:
        t += A[k % len(A)]; k += 1
        if t >= T: break
        j = min(range(c), key=lambda i: free[i])
        start = max(t, free[j])
        if start >= T:
            out.append((t, None, None)); continue
        s = S[si % len(S)]; si += 1
        end = start + s
        free[j] = end
        out.append((t, start, end))
    return out


def worker(job, extra):
    seed = job['seed']
    res = {'job': job, 'seed': seed, 'viol': [], 'known': [], 'fields': 0, 'ref_compared': 0, 'float_compared': 0}
    if job['kind'] == 'grid':
        spec = job.get('spec') or make_grid_spec(seed)
        res['sig'] = repr(('grid', spec['mode'], spec['n'], spec['k'], [s['kind'] for s in spec['servers']], bool(spec['reneging']), bool(spec['priorities'])))

        def go():
            N = build(spec); ciw.seed(seed)
            Q = CapSim(N, exact=spec['k']); Q._cap = 20000
            Q.simulate_until_max_time(spec['T'])
            return Q
        Q, st, cr = guarded(go, 60)
        res['status'] = st
        if st == 'crash': res['viol'].append(('crash_in_exact_mode', repr(cr)))
        if st != 'ok':
            if res['viol']: res['spec'] = spec
            return res
        nonbinary = any(s['kind'] == 'schedule' and any((e * 2) != int(e * 2) for e in s['ends']) for s in spec['servers'])
        recs = [r for i in all_individuals(Q) for r in i.data_records]
        res['nrec'] = len(recs)
        for rec in recs:
            bad = None
            for f in FIELDS:
                v = getattr(rec, f)
                if isnan(v): continue
                res['fields'] += 1
                if not isinstance(v, Decimal): bad = ('field_not_decimal', (f, type(v).__name__, rec.record_type, rec.node)); break
                if v != v.quantize(Decimal('0.1')): bad = ('date_off_decimal_grid', (f, str(v)[:32], rec.record_type, rec.node)); break
            if bad:
                if bad[0] == 'date_off_decimal_grid' and nonbinary: res['known'].append('K23')
                else: res['viol'].append(bad)
                break
        if spec['mode'] == 'single_fifo' and not res['viol']:
            sv = spec['servers'][0]
            ref = fifo_reference(spec['arrivals']['C0'][0]['s'], spec['services']['C0'][0]['s'], sv['c'], Fraction(str(spec['T'])))
            got = sorted([(Fraction(str(r.arrival_date)), Fraction(str(r.service_start_date)), Fraction(str(r.exit_date))) for r in recs if r.record_type == 'service'])
            exp = sorted([x for x in ref if x[2] is not None and x[2] < Fraction(str(spec['T']))])
            # records exist only for customers that left before T (events strictly before T are executed)
            res['ref_compared'] = len(exp)
            if got != exp:
                diff = [(a, b) for a, b in zip(got, exp) if a != b][:2]
                res['viol'].append(('exact_dates_differ_from_rational_recomputation', (len(got), len(exp), [tuple(map(str, x)) for p in diff for x in p])))
        if res['viol']: res['spec'] = spec
        res['sample'] = {'kind': 'grid', 'seed': seed, 'mode': spec['mode'], 'k': spec['k'], 'servers': spec['servers'], 'records': len(recs)}
        return res
    if job['kind'] == 'precision':
        return precision_job(job, res)
    # float vs exact on tie-free workloads (ordinary nodes only)
    prof = {'p_lattice': 0.0, 'p_ps': 0.0, 'p_exact': 0.0, 'p_kinds': (0.7, 0.1, 0.2, 0.0), 'horizons': [10.0, 20.0], 'p_batch': 0.2,
            'p_renege': 0.3, 'p_prio': 0.4, 'p_cct': 0.1, 'p_ccm': 0.2,
            'p_custom_dist': 0.0}   # time / state dependent distributions are discontinuous in t: a 1e-16 difference legitimately flips a sample
    if seed % 4 == 1:
        # a quarter of the pairs: class changes while waiting x pre-emptive priorities x class-dependent service times
        prof = dict(prof, n_classes=[2, 3], p_cct=1.0, p_prio=1.0, force_distinct_prio=True, p_prio_preempt=1.0,
                    prio_preempt_opts=['resume', 'restart', 'resample'], p_kinds=(1.0, 0.0, 0.0, 0.0), p_qcap=0.0, arr_scale=0.6)
    spec = job.get('spec') or gen.gen_spec(seed, prof)
    spec['tie'] = 'native'
    k = random.Random(seed).choice([12, 14, 20, 26])
    res['sig'] = repr(('float_vs_exact', k, gen.topo_signature(spec), sorted(gen.features(spec))))

    k_ = reaches_open_finding(spec)
    if k_:
        res['status'] = 'skipped_reaches_' + k_; return res

    def run(exact):
        def f():
            N, skw = gen.build(spec); ciw.seed(seed)
            if exact: skw['exact'] = exact
            Q = CapSim(N, **skw); Q._cap = 8000
            Q.simulate_until_max_time(spec['run']['T'])
            return Q
        return guarded(f, 60)
    A, sa, ca = run(False)
    B, sb, cb = run(k)
    res['status'] = sa if sa != 'ok' else sb
    if sa == 'ok' and sb == 'crash':
        res['viol'].append(('crash_only_in_exact_mode', repr(cb)))
    if sa != 'ok' or sb != 'ok':
        if res['viol']: res['spec'] = spec
        return res
    if A._ties > 0 or B._ties > 0:
        res['status'] = 'tie_skipped'; return res
    # mathematically coincident events coincide in exact mode only (that is the point of exact mode) and then consume a tie-break
    # random number the float run does not: any two records of the exact run ending at exactly the same instant at one node
    # (e.g. batch-mates with equal service times) make the pair non-tie-free
    seen_ = set()
    for i_ in all_individuals(B):
        for r_ in i_.data_records:
            key_ = (r_.node, r_.exit_date)
            if key_ in seen_:
                res['status'] = 'tie_skipped'; return res
            seen_.add(key_)
    ra = sorted([r for i in all_individuals(A) for r in i.data_records], key=lambda r: (r.id_number, float(r.arrival_date), r.record_type))
    rb = sorted([r for i in all_individuals(B) for r in i.data_records], key=lambda r: (r.id_number, float(r.arrival_date), r.record_type))
    # an event that falls on the horizon in one arithmetic and a hair before it in the other is executed in one run only:
    # records ending within 1e-6 of the horizon are left out of the comparison
    Tm = spec['run']['T'] - 1e-6
    ra = [r for r in ra if float(r.exit_date) < Tm]
    rb_all = rb
    rb = [r for r in rb if float(r.exit_date) < Tm]
    res['nrec'] = len(rb)
    for rec in rb_all:
        for f in FIELDS:
            v = getattr(rec, f)
            if isnan(v): continue
            res['fields'] += 1
            if not isinstance(v, Decimal):
                res['viol'].append(('field_not_decimal', (f, type(v).__name__, rec.record_type, rec.node))); break
        if res['viol']: break
    tol = max(1e-9, 10.0 ** (3 - k))
    if len(ra) != len(rb):
        res['near_tie'] = True   # a different number of records can only come from a reordering of two almost simultaneous events
        res['viol'].append(('float_and_exact_runs_differ_in_record_count', (len(ra), len(rb))))
    else:
        for x, y in zip(ra, rb):
            if (x.id_number, x.node, x.record_type) != (y.id_number, y.node, y.record_type):
                res['viol'].append(('float_and_exact_records_differ', (tuple(map(str, x))[:8], tuple(map(str, y))[:8]))); break
            ok = True
            for f in FIELDS:
                a, b = getattr(x, f), getattr(y, f)
                if isnan(a) or isnan(b):
                    if isnan(a) != isnan(b): ok = False
                    continue
                res['float_compared'] += 1
                if abs(float(a) - float(b)) > tol * max(1.0, abs(float(a))): ok = False
            if not ok:
                res['viol'].append(('float_and_exact_records_differ', (tuple(map(str, x))[:11], tuple(map(str, y))[:11]))); break
    if res['viol']: res['spec'] = spec
    res['sample'] = {'kind': 'float_vs_exact', 'seed': seed, 'k': k, 'n_nodes': spec['n'], 'records': len(rb), 'servers': [nd['servers'] for nd in spec['nodes']]}
    return res


def precision_job(job, res):
    """The precision asked for is the precision used, whatever ran before in the process and whichever run method is used:
    after a low-precision exact simulation, a high-precision one must still produce exact decimal sums of samples that need
    more digits than the earlier precision."""
    seed = job['seed']
    r = random.Random(seed)
    k = r.choice([20, 26, 30])
    step = Decimal(r.choice(['1234.0000001', '987.00000003', '4321.000000007']))
    svc = Decimal(r.choice(['0.0000001', '0.25', '1.00000000001']))
    method = job.get('method') or r.choice(['time', 'customers', 'deadlock'])
    res['sig'] = repr(('precision', k, str(step), method))
    D = ciw.dists.Deterministic

    def go():
        # pilot with a low precision (leaves the process-wide decimal context at 10 digits)
        N0 = ciw.create_network(arrival_distributions=[D(1.0)], service_distributions=[D(0.5)], number_of_servers=[1])
        ciw.seed(seed); Q0 = CapSim(N0, exact=10); Q0.simulate_until_max_time(5)
        if method == 'deadlock':
            N = ciw.create_network(arrival_distributions=[D(float(step))], service_distributions=[D(float(svc))], number_of_servers=[1],
                                   queue_capacities=[0], routing=[[1.0]])
            ciw.seed(seed); Q = CapSim(N, exact=k, deadlock_detector=ciw.deadlock.StateDigraph()); Q._cap = 5000
            Q.simulate_until_deadlock()
        else:
            N = ciw.create_network(arrival_distributions=[D(float(step))], service_distributions=[D(float(svc))], number_of_servers=[2])
            ciw.seed(seed); Q = CapSim(N, exact=k); Q._cap = 5000
            if method == 'time': Q.simulate_until_max_time(float(step) * 12.5)
            else: Q.simulate_until_max_customers(12, method='Arrive')
        return Q
    Q, st, cr = guarded(go, 60)
    res['status'] = st
    if st == 'crash': res['viol'].append(('crash_in_exact_mode', repr(cr)))
    if st != 'ok': return res
    inds = sorted(all_individuals(Q), key=lambda i: i.id_number)
    res['nrec'] = len(inds)
    stepd = Decimal(str(float(step)))   # the engine converts samples with Decimal(str(sample))
    svcd = Decimal(str(float(svc)))
    for n_, i in enumerate(inds, 1):
        arr = i.data_records[0].arrival_date if i.data_records else i.arrival_date
        exp = Fraction(stepd) * n_
        res['ref_compared'] += 1
        if not isinstance(arr, Decimal) or Fraction(arr) != exp:
            res['viol'].append(('date_not_exact_sum_at_requested_precision', (method, k, n_, str(arr), str(stepd * n_)))); break
        for rec in i.data_records:
            if rec.record_type == 'service' and Fraction(rec.service_end_date) != Fraction(rec.service_start_date) + Fraction(svcd):
                res['viol'].append(('service_end_not_exact_sum_at_requested_precision', (method, k, str(rec.service_start_date), str(rec.service_end_date)))); break
        # a customer still at the node (in service, or blocked as in the deadlock runs) has no record yet: its live dates count too
        if not i.data_records and isinstance(getattr(i, 'service_start_date', False), Decimal) and isinstance(getattr(i, 'service_end_date', False), Decimal):
            res['ref_compared'] += 1
            if Fraction(i.service_end_date) != Fraction(i.service_start_date) + Fraction(svcd):
                res['viol'].append(('service_end_not_exact_sum_at_requested_precision', (method, k, str(i.service_start_date), str(i.service_end_date)))); break
    res['sample'] = {'kind': 'precision', 'seed': seed, 'k': k, 'inter_arrival': str(step), 'method': method, 'customers': len(inds)}
    return res


def main(tier, vseed, replay=None):
    S = Summary('C20', tier, vseed)
    if replay:
        import json
        jobs = [json.load(open(replay))['job']]
    else:
        n = BUDGET[tier]
        jobs = [{'seed': vseed * 1000003 + k, 'kind': 'grid'} for k in range(n * 2 // 3)] + \
               [{'seed': vseed * 1000003 + 500000 + k, 'kind': 'float'} for k in range(n // 3)] + \
               [{'seed': vseed * 1000003 + 800000 + k, 'kind': 'precision', 'method': ['time', 'customers', 'deadlock'][k % 3]} for k in range(max(6, n // 20))]
    results, failures = runner.run_shards('ciwmon.special.c20', jobs, {}, 900 if tier == 'quick' else 4 * 3600)
    for r in results:
        if 'harness_error' in r:
            S.harness_errors.append(r['harness_error'][-300:]); continue
        S.counters['runs'] += 1
        S.counters['status_' + r['status']] += 1
        S.counters['decimal_fields_checked'] += r['fields']
        S.counters['customers_vs_rational_reference'] += r['ref_compared']
        S.counters['fields_float_vs_exact'] += r['float_compared']
        for k in r['known']: S.known[k] += 1
        if r.get('nrec', 0) > 0:
            S.sigs.add(r['sig'])
            if len(S.samples) < 4 and 'sample' in r: S.samples.append(r['sample'])
        for code, w in r['viol']:
            S.viol.append((code, {'job': dict(r['job'], spec=r.get('spec')), 'spec': r.get('spec'), 'witness': w}))
        if replay: print(r['viol'], r['known'])
    return S.finish(
        rule="(a) decimal-grid workloads (Sequential samples that are multiples of 0.1) on 1-3 ordinary nodes with int / inf / scheduled servers, optional "
             "reneging and priorities, precision k in {10,12,14,20,26}: types, grid membership, and for single FIFO c-server nodes an exact recomputation "
             "with Fractions; (b) tie-free generated networks run in float and in exact mode and compared record by record; non-trivial = records "
             "produced; distinct = (kind, mode / topology, precision, features)",
        level='exploration', deciding='decimal_fields_checked', replay=bool(replay), failures=failures,
        assumptions=["schedule boundaries that are not binary-exact are the open finding K23 (drift there is attributed to it)",
                     "float-vs-exact pairs in which the float run met a tie between nodes are skipped"])


if __name__ == '__main__':
    if len(sys.argv) >= 4 and sys.argv[1] == '--shard':
        runner.shard_main(sys.argv[2:4], worker)
