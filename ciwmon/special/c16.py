"""C16 Pause/resume transparency (metamorphic): simulate_until_max_time(T) in one call vs several increasing calls.

Tie-free (continuous) workloads only; a pair is skipped (counted) when the unsplit run met any tie between nodes.
Compared: all records (exact), final clock, per-server total_time, per-server busy_time, node.server_utilisation.
Open finding K10 (wrap_up_servers / find_server_utilisation are not idempotent): busy_time of a server that was busy at
an intermediate stop, and server_utilisation after any intermediate stop, are attributed to K10; everything else is judged.
"""
import sys, random, math
import ciw
from .. import gen, runner
from .common import reaches_open_finding, CapSim, guarded, fingerprint, first_diff, Summary

PROFILE = {'p_lattice': 0.0, 'p_exact': 0.0, 'horizons': [10.0, 20.0, 30.0], 'p_renege': 0.3, 'p_prio': 0.5,
           'p_kinds': (0.6, 0.1, 0.2, 0.1)}
BUDGET = {'quick': 240, 'thorough': 4000}


def server_stats(Q):
    out = {}
    for nd in Q.transitive_nodes:
        if hasattr(nd, 'servers') and not isinstance(nd, ciw.PSNode):
            for s in nd.servers:
                out[(nd.id_number, s.id_number)] = (float(s.total_time) if s.total_time is not False else None, float(s.busy_time))
    util = {nd.id_number: (None if getattr(nd, 'server_utilisation', None) is None else float(nd.server_utilisation)) for nd in Q.transitive_nodes}
    return out, util


def worker(job, extra):
    seed = job['seed']
    prof = dict(PROFILE)
    if seed % 4 == 3:   # exact arithmetic: the decimal context must be the same in every successive call
        prof.update(p_exact=1.0, p_ps=0.0)
    spec = job.get('spec') or gen.gen_spec(seed, prof)
    spec['tie'] = 'native'
    for nd in spec['nodes']:
        # a server_priority_function that reads busy_time inherits the open finding K10 (double-counted busy time after a
        # pause changes the server choice); such functions are not generated here so that records stay strictly judged
        if nd.get('spf') == 'least_busy': nd['spf'] = 'last'
    T = spec['run']['T']
    r = random.Random(seed)
    cuts = job.get('cuts') or sorted(round(r.uniform(0.0, T), 6) for _ in range(r.randint(1, 5)))
    res = {'job': dict(job, cuts=cuts), 'seed': seed, 'features': sorted(gen.features(spec)), 'sig': repr(gen.topo_signature(spec)), 'viol': [], 'known': []}

    k_ = reaches_open_finding(spec)
    if k_:
        res['status'] = 'skipped_reaches_' + k_; return res

    def unsplit():
        N, skw = gen.build(spec); ciw.seed(seed)
        Q = CapSim(N, **skw); Q._cap = 8000
        Q.simulate_until_max_time(T)
        return Q
    A, st, cr = guarded(unsplit, 40)
    res['status'] = st
    if st != 'ok':
        return res
    if A._ties > 0:
        res['status'] = 'tie_skipped'; return res
    busy_at_stop = set()

    def split():
        N, skw = gen.build(spec); ciw.seed(seed)
        Q = CapSim(N, **skw); Q._cap = 8000
        for c in cuts:
            Q.simulate_until_max_time(c)
            for nd in Q.transitive_nodes:
                if hasattr(nd, 'servers') and not isinstance(nd, ciw.PSNode):
                    for s in nd.servers:
                        if s.busy: busy_at_stop.add((nd.id_number, s.id_number))
        Q.simulate_until_max_time(T)
        return Q
    B, st2, cr2 = guarded(split, 60)
    if st2 != 'ok':
        if st2 == 'crash':
            res['viol'].append(('split_run_crashed', repr(cr2)))
        res['status'] = 'split_' + st2
        return res
    fa, fb = fingerprint(A), fingerprint(B)
    res['nrec'] = len(fa[0])
    res['stops'] = len(cuts)
    d = first_diff(fa, fb)
    if d is not None:
        res['viol'].append(('records_or_clock_differ', repr(d)[:500]))
    sa, ua = server_stats(A); sb, ub = server_stats(B)
    res['servers_compared'] = 0; res['servers_busy_at_stop'] = len(busy_at_stop)
    if set(sa) != set(sb):
        res['viol'].append(('server_sets_differ', (sorted(sa)[:6], sorted(sb)[:6])))
    else:
        for key in sa:
            res['servers_compared'] += 1
            ta, ba = sa[key]; tb, bb = sb[key]
            if ta is not None and tb is not None and abs(ta - tb) > 1e-9:
                res['viol'].append(('server_total_time_differs', (key, ta, tb)))
            if abs(ba - bb) > 1e-9:
                if key in busy_at_stop: res['known'].append('K10')
                else: res['viol'].append(('server_busy_time_differs', (key, ba, bb)))
    res['util_compared'] = 0
    for nid in ua:
        if ua[nid] is None and ub[nid] is None: continue
        res['util_compared'] += 1
        if ua[nid] is None or ub[nid] is None or abs(ua[nid] - ub[nid]) > 1e-9:
            res['known'].append('K10')   # lists re-appended at every stop: attributed to K10 whenever there was an intermediate stop
        if ub[nid] is not None and not (0 <= ub[nid] <= 1 + 1e-9) and ua[nid] is not None and (0 <= ua[nid] <= 1 + 1e-9):
            pass
    if res['viol']:
        res['spec'] = spec
    res['sample'] = {'seed': seed, 'T': T, 'cuts': cuts, 'n_nodes': spec['n'], 'records': res['nrec'], 'servers': [nd['servers'] for nd in spec['nodes']]}
    return res


def main(tier, vseed, replay=None):
    S = Summary('C16', tier, vseed)
    if replay:
        import json
        payload = json.load(open(replay))
        jobs = [payload['job']]
    else:
        jobs = [{'seed': vseed * 1000003 + k} for k in range(BUDGET[tier])]
    results, failures = runner.run_shards('ciwmon.special.c16', jobs, {}, 900 if tier == 'quick' else 4 * 3600)
    for r in results:
        if 'harness_error' in r:
            S.harness_errors.append(r['harness_error'][-300:]); continue
        S.counters['runs'] += 1
        S.counters['status_' + r['status']] += 1
        if r['status'] == 'ok' and 'nrec' in r:
            S.counters['pairs_compared'] += 1
            S.counters['records_compared'] += r['nrec']
            S.counters['intermediate_stops'] += r['stops']
            S.counters['servers_compared'] += r['servers_compared']
            S.counters['servers_busy_at_a_stop'] += r['servers_busy_at_stop']
            S.counters['utilisations_compared'] += r['util_compared']
            if r['nrec'] > 0:
                S.sigs.add(r['sig'] + repr(r['features']) + repr(r['stops']))
                if len(S.samples) < 4: S.samples.append(r['sample'])
        for k in r['known']: S.known[k] += 1
        for code, w in r['viol']:
            S.viol.append((code, {'job': dict(r['job'], spec=r.get('spec')), 'spec': r.get('spec'), 'witness': w}))
        if replay: print(r['viol'], r['known'])
    return S.finish(
        rule="continuous (tie-free) generated specs; each run once to T and once in 2-6 successive simulate_until_max_time calls with random increasing "
             "horizons; pairs where the unsplit run met a tie between nodes are skipped; non-trivial = records were produced; distinct = (feature set, "
             "topology signature, number of stops)",
        level='exploration', deciding='pairs_compared', replay=bool(replay), failures=failures,
        assumptions=["no two events coincide (pairs with observed ties are dropped)", "busy_time of servers that were busy at an intermediate stop and "
                     "node.server_utilisation after an intermediate stop are attributed to the open finding K10"])


if __name__ == '__main__':
    if len(sys.argv) >= 4 and sys.argv[1] == '--shard':
        runner.shard_main(sys.argv[2:4], worker)
