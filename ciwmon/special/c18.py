"""C18 Deadlock detection: simulate_until_deadlock vs an independent fixpoint oracle after every event.

Oracle: D = greatest set of nodes such that every server of every node in D holds a blocked customer whose
destination is in D (computed from the live configuration, independent of networkx / the state digraph).
The run must stop exactly at the first event after which D is non-empty; times_to_deadlock is recomputed from
the per-event tracker states.
"""
import sys, random, collections
import ciw
from .. import gen, runner
from .common import guarded, Cap, Summary

BUDGET = {'quick': (400, 4000), 'thorough': (10000, 20000)}


def oracle_deadlock(Q):
    nodes = {nd.id_number: nd for nd in Q.transitive_nodes}
    D = set()
    for nid, nd in nodes.items():
        if nd.c == float('inf'): continue   # an infinite-server node always has a free server: never part of a deadlock
        if nd.c > 0 and len(nd.servers) > 0 and all(s.cust and s.cust.is_blocked for s in nd.servers):
            D.add(nid)
    changed = True
    while changed:
        changed = False
        for nid in list(D):
            if any(s.cust.destination not in D for s in nodes[nid].servers):
                D.discard(nid); changed = True
    return D


class DLSim(ciw.Simulation):
    tie = 'native'

    def find_next_active_node(self):
        if self.tie == 'native':
            return super().find_next_active_node()
        m = min(nd.next_event_date for nd in self.active_nodes)
        c = [nd for nd in self.active_nodes if nd.next_event_date == m]
        if len(c) > 1: self.ties_seen = getattr(self, 'ties_seen', 0) + 1
        return c[0] if self.tie == 'first' else c[-1]

    def event_and_return_nextnode(self, nd):
        self.nev += 1
        if self.nev > self.cap:
            raise Cap()
        t = self.current_time
        r = super().event_and_return_nextnode(nd)
        D = oracle_deadlock(self)
        st = self.statetracker.hash_state()
        if st not in self.first: self.first[st] = t
        nblocked = sum(1 for n_ in self.transitive_nodes for i in n_.all_individuals if i.is_blocked)
        self.maxblocked = max(self.maxblocked, nblocked)
        self.log.append((t, bool(D), nblocked))
        return r


def make_spec(seed):
    r = random.Random(seed)
    n = r.choice([1, 2, 2, 3, 3, 4]); ncls = r.choice([1, 1, 2, 3])
    classes = ['C%d' % i for i in range(ncls)]
    lattice = r.random() < 0.3
    def td(scale):
        if lattice:
            return {'d': 'seq', 's': [r.randint(1, 5) * 0.5 * scale for _ in range(r.randint(2, 4))]} if r.random() < 0.7 else {'d': 'det', 'v': r.choice([0.5, 1.0, 1.5]) * scale}
        return {'d': 'exp', 'rate': round(r.uniform(0.5, 3) / scale, 3)}
    arr = {c: [td(1.0) if r.random() < 0.8 else None for _ in range(n)] for c in classes}
    if all(a is None for c in classes for a in arr[c]): arr[classes[0]][0] = td(1.0)
    srv = {c: [td(0.8) for _ in range(n)] for c in classes}
    rt = {}
    for c in classes:
        M = []
        for i in range(n):
            w = [r.choice([0, 1, 1, 2]) for _ in range(n)]; tot = sum(w) + r.choice([0.5, 1, 2])
            M.append([round(x / tot * 0.999, 4) if x else 0.0 for x in w])
        rt[c] = M
    spec = dict(seed=seed, n=n, classes=classes, arrivals=arr, services=srv, routing=rt,
                servers=[r.choice([1, 1, 2, 3]) for _ in range(n)], qcaps=[r.choice([0, 0, 1, 2]) for _ in range(n)],
                priorities=({c: i for i, c in enumerate(classes)} if ncls > 1 and r.random() < 0.5 else None),
                tracker=r.choice(['NaiveBlocking', 'MatrixBlocking', 'NodePopulation']), lattice=lattice,
                disciplines=[r.choice(['FIFO', 'FIFO', 'LIFO', 'SIRO']) for _ in range(n)])
    spec['exact'] = r.choice([12, 20]) if r.random() < 0.12 else False
    r2 = random.Random(seed * 7 + 1)   # separate stream: older replay files keep their meaning
    if n >= 2 and r2.random() < 0.15:
        spec['servers'][r2.randrange(n)] = 'inf'
    spec['tie'] = r.choice(['native', 'native', 'first', 'last']) if lattice else 'native'
    return spec


def directed_specs():
    """Hand-written edge cases run on every invocation: a deadlock that forms at time exactly 0 (first arrival at 0, zero-length
    service, the only place of the node taken by the customer itself), alone and next to a tandem line that blocks without ever
    deadlocking; the same in exact arithmetic; a deadlock closed through an infinite-server relay that is not part of it."""
    out = []
    z = {'d': 'seq', 's': [0.0, 1.0, 1.0]}
    def sp(name, n, arr, srv, rt, servers, qcaps, **kw):
        d = dict(seed=7, name=name, n=n, classes=['C0'], arrivals={'C0': arr}, services={'C0': srv}, routing={'C0': rt}, servers=servers, qcaps=qcaps,
                 priorities=None, tracker='NaiveBlocking', lattice=True, disciplines=['FIFO'] * n, exact=False, tie='native')
        d.update(kw); return d
    det = lambda v: {'d': 'det', 'v': v}
    out.append(sp('deadlock_at_time_zero', 1, [z], [det(0.0)], [[1.0]], [1], [0]))
    out.append(sp('deadlock_at_time_zero_exact', 1, [z], [det(0.0)], [[1.0]], [1], [0], exact=20))
    out.append(sp('deadlock_at_time_zero_beside_a_blocking_line', 3, [z, det(0.75), None], [det(0.0), det(0.5), det(1.5)],
                  [[1.0, 0.0, 0.0], [0.0, 0.0, 1.0], [0.0, 0.0, 0.0]], [1, 1, 1], [0, 1, 0], tracker='MatrixBlocking'))
    out.append(sp('ring_through_three_nodes', 3, [det(1.0), None, None], [det(0.5), det(0.5), det(0.5)],
                  [[0.0, 1.0, 0.0], [0.0, 0.0, 1.0], [1.0, 0.0, 0.0]], [1, 1, 1], [0, 0, 0], tracker='NodePopulation'))
    return out


def build(spec):
    kw = dict(arrival_distributions={c: [gen.make_dist(d) for d in spec['arrivals'][c]] for c in spec['classes']},
              service_distributions={c: [gen.make_dist(d) for d in spec['services'][c]] for c in spec['classes']},
              routing={c: [list(row) for row in spec['routing'][c]] for c in spec['classes']},
              number_of_servers=[float('inf') if c == 'inf' else c for c in spec['servers']], queue_capacities=list(spec['qcaps']),
              service_disciplines=[getattr(ciw.disciplines, d) for d in spec['disciplines']])
    if spec['priorities']: kw['priority_classes'] = dict(spec['priorities'])
    return ciw.create_network(**kw)


def worker(job, extra):
    seed = job['seed']
    spec = job.get('spec') or make_spec(seed)
    cap = extra['cap']
    res = {'job': job, 'seed': seed, 'viol': [], 'sig': repr((spec['n'], len(spec['classes']), spec['servers'], spec['qcaps'], spec['tracker'], bool(spec['priorities']), spec['lattice'], spec.get('exact')))}

    def go():
        N = build(spec)
        ciw.seed(seed)
        Q = DLSim(N, deadlock_detector=ciw.deadlock.StateDigraph(), tracker=getattr(ciw.trackers, spec['tracker'])(), **({'exact': spec['exact']} if spec.get('exact') else {}))
        Q.tie = spec.get('tie', 'native')
        Q.nev = 0; Q.cap = cap; Q.log = []; Q.maxblocked = 0; Q.first = {Q.statetracker.hash_state(): 0.0}
        res['Q'] = Q
        if job.get('prefix'):
            # mixed drivers on one Simulation: a time-limited run first (it may pass over the formation of a deadlock), then
            # simulate_until_deadlock, which must stop at its first event after which a deadlock exists
            Q.simulate_until_max_time(round(random.Random(seed * 3 + 1).uniform(0.5, 8.0), 3))
            res['n0'] = len(Q.log)
        Q.simulate_until_deadlock()
        return Q
    Q, st, cr = guarded(go, 60)
    Qx = res.pop('Q', None)
    res['status'] = st
    log = Qx.log if Qx is not None else []
    res['events'] = len(log)
    res['blocks_seen'] = Qx.maxblocked if Qx is not None else 0
    flags = [d for t, d, nb in log]
    if job.get('prefix'):
        if 'n0' not in res:
            res['status'] = st = 'prefix_' + st; flags = []   # cap / crash before the deadlock driver was entered
        else:
            flags = flags[res['n0']:]; log = log[res['n0']:]
    if st == 'crash':
        res['viol'].append(('crash_in_simulate_until_deadlock', repr(cr)))
    elif st == 'cap':
        if any(flags):
            k = flags.index(True)
            res['viol'].append(('missed_deadlock', (log[k][0], k, len(flags))))
        res['outcome'] = 'no_deadlock_within_cap'
    elif st == 'ok':
        if not flags or not flags[-1]:
            res['viol'].append(('false_deadlock', (log[-1] if log else None,)))
        elif any(flags[:-1]):
            res['viol'].append(('late_deadlock', (log[flags.index(True)][0], log[-1][0])))
        res['outcome'] = 'deadlock'
        if job.get('prefix'):
            res['ttd_states'] = 0; res['mixed'] = 1
            if res['viol']: res['spec'] = spec
            res['sample'] = {'seed': seed, 'mixed_drivers': True, 'events': len(log)}
            return res
        tdl = log[-1][0]
        exp = {s_: float(tdl) - float(t0) for s_, t0 in Qx.first.items()}
        # exact=k rounds every date to k significant digits: compare at that resolution (dates here reach several thousand)
        kx = spec.get('exact')
        tol_ = (lambda v: 1e-9) if not kx else (lambda v: 1e-9 + 10.0 ** (3 - kx) * max(1.0, abs(float(tdl))))
        got = Qx.times_to_deadlock
        if set(exp) != set(got): res['viol'].append(('times_to_deadlock_keys', (len(exp), len(got))))
        elif any(abs(exp[k] - float(got[k])) > tol_(exp[k]) for k in exp): res['viol'].append(('times_to_deadlock_values', [(k, exp[k], float(got[k])) for k in exp if abs(exp[k] - float(got[k])) > tol_(exp[k])][:3]))
        elif got and min(got.values()) < 0: res['viol'].append(('times_to_deadlock_negative', min(got.values())))
        res['ttd_states'] = len(got)
    if res['viol']: res['spec'] = spec
    res['sample'] = {'seed': seed, 'n_nodes': spec['n'], 'servers': spec['servers'], 'qcaps': spec['qcaps'], 'tracker': spec['tracker'],
                     'events': len(log), 'outcome': res.get('outcome'), 'max_blocked': res['blocks_seen']}
    return res


def main(tier, vseed, replay=None):
    S = Summary('C18', tier, vseed)
    runs, cap = BUDGET[tier]
    if replay:
        import json
        payload = json.load(open(replay))
        jobs = [payload['job']]
    else:
        jobs = [dict({'seed': vseed * 1000003 + k}, **({'prefix': True} if k % 6 == 5 else {})) for k in range(runs)]
        jobs += [{'seed': 7, 'spec': sp_} for sp_ in directed_specs()]
    results, failures = runner.run_shards('ciwmon.special.c18', jobs, {'cap': cap}, 900 if tier == 'quick' else 4 * 3600)
    for r in results:
        if 'harness_error' in r:
            S.harness_errors.append(r['harness_error'][-300:]); continue
        S.counters['runs'] += 1
        S.counters['status_' + r['status']] += 1
        S.counters['events_with_oracle_evaluated'] += r['events']
        if r.get('mixed'): S.counters['mixed_driver_runs_judged'] += 1
        if r.get('outcome') == 'deadlock':
            S.counters['deadlocks_reached'] += 1
            S.counters['times_to_deadlock_states'] += r.get('ttd_states', 0)
        if r.get('outcome') == 'no_deadlock_within_cap': S.counters['no_deadlock_within_cap'] += 1
        if r['blocks_seen'] > 0:
            S.counters['runs_with_blocking'] += 1
            S.sigs.add(r['sig'])
            if len(S.samples) < 4: S.samples.append(r['sample'])
        for code, w in r['viol']:
            S.viol.append((code, {'job': dict(r['job'], spec=r.get('spec')), 'spec': r.get('spec'), 'witness': w}))
        if replay: print(r['viol'], r.get('outcome'))
    return S.finish(
        rule="generated restricted networks (1-4 nodes, 1-3 servers, capacities 0-2, 1-3 classes, optional non-pre-emptive priorities, FIFO/LIFO/SIRO, "
             "exponential or lattice times, three trackers) run with simulate_until_deadlock + StateDigraph; after every event an independent fixpoint "
             "computes the deadlocked node set; non-trivial = at least one customer was blocked during the run; distinct = (nodes, classes, servers, "
             "capacities, tracker, priorities, lattice)",
        level='exploration', deciding='events_with_oracle_evaluated', replay=bool(replay), failures=failures,
        extra_cov={'traces_validated_against_impl': int(S.counters['deadlocks_reached'])},
        assumptions=["a run that hits the event cap with no oracle deadlock is counted, not judged for completeness beyond the cap"])


if __name__ == '__main__':
    if len(sys.argv) >= 4 and sys.argv[1] == '--shard':
        runner.shard_main(sys.argv[2:4], worker)
