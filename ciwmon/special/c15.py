"""C15 Reproducibility (differential): same seed + equal parameters => bit-identical results.

Scenarios per generated spec:
  fresh        two freshly built equal networks after ciw.seed(s)
  interleaved  an unrelated simulation (other spec, other seed, possibly exact) runs in between
  reuse        a second Simulation on the *same* Network object (fresh tracker) vs a freshly built one
  concurrent   two Simulations alive at once on one Network object, advanced alternately, vs each alone
'reuse' and 'concurrent' are where the open finding K9 lives (objects taken from the Network by reference);
a difference there is attributed to K9 only when the spec contains the shared mutable state K9 names.
"""
import sys, random, copy
import ciw
from .. import gen, runner, profiles
from .common import reaches_open_finding, CapSim, guarded, fingerprint, first_diff, Summary

PROFILE = {'horizons': [8.0, 12.0, 20.0], 'p_exact': 0.15, 'p_renege': 0.35, 'p_cct': 0.25, 'p_ccm': 0.3, 'p_batch': 0.3}
BUDGET = {'quick': 160, 'thorough': 3000}


def run_fresh(spec, seed, net=None, cap=6000):
    def f():
        N, skw = gen.build(spec) if net is None else (net, gen.sim_kwargs(spec))
        ciw.seed(seed)
        Q = CapSim(N, **skw); Q._cap = cap
        Q.simulate_until_max_time(spec['run']['T'])
        return fingerprint(Q)
    return guarded(f, wall=40)


def outcome(x):
    val, status, crash = x
    return ('fp', val) if status == 'ok' else (status, crash)


def has_shared_mutable_state(spec):
    """The state K9 names: Cycle routers, stateful (Sequential) reneging / class-change-time distributions,
    Pmf/other distributions are stateless. Schedule objects are re-initialised per Simulation (sequential reuse is fine)."""
    for c, r in spec['routing'].items():
        if r['r'] == 'nr' and any(q['k'] == 'cycle' for q in r['routers']): return 'cycle_router'
    def stateful(d):
        return d is not None and (d['d'] == 'seq' or (d['d'] == 'sum' and (stateful(d['l']) or stateful(d['r']))))
    if spec.get('reneging') and any(stateful(d) for c in spec['classes'] for d in spec['reneging'][c]): return 'sequential_reneging'
    if spec.get('cct') and any(stateful(d) for row in spec['cct'].values() for d in row.values()): return 'sequential_class_change_time'
    return None


def worker(job, extra):
    seed = job['seed']
    prof = dict(PROFILE)
    if seed % 5 == 4:
        # simultaneous service starts (batches on a time lattice) at multi-server nodes with pre-emptive priorities: whichever of
        # several equally good victims / candidates is taken must not depend on object identity (memory addresses, hash order)
        prof.update(n_classes=[2, 3], p_prio=1.0, force_distinct_prio=True, p_prio_preempt=1.0, p_kinds=(0.85, 0.0, 0.15, 0.0),
                    p_batch=0.8, p_lattice=1.0, p_ps=0.0, p_exact=0.0, int_servers=[2, 3, 3, 4])
    spec = job.get('spec') or gen.gen_spec(seed, prof)
    spec['tie'] = 'native'
    res = {'job': job, 'seed': seed, 'cmp': {}, 'features': sorted(gen.features(spec)), 'sig': repr(gen.topo_signature(spec))}
    k_ = reaches_open_finding(spec)
    if k_:
        res['status'] = 'skipped_reaches_' + k_; return res
    A = outcome(run_fresh(spec, seed))
    res['status'] = A[0]
    if A[0] in ('timeout', 'cap'):
        return res
    res['nrec'] = len(A[1][0]) if A[0] == 'fp' else 0

    def cmp(name, B):
        if B[0] in ('timeout', 'cap'):
            res['cmp'][name] = ('skip', B[0]); return
        if A[0] != B[0]:
            res['cmp'][name] = ('diff', ('outcome', A[0], B[0], A[1] if A[0] != 'fp' else None, B[1] if B[0] != 'fp' else None)); return
        if A[0] == 'fp':
            d = first_diff(A[1], B[1])
            res['cmp'][name] = ('eq', None) if d is None else ('diff', d)
        else:
            res['cmp'][name] = ('eq', None) if A[1] == B[1] else ('diff', ('crash', A[1], B[1]))
    # fresh
    cmp('fresh', outcome(run_fresh(spec, seed)))
    # interleaved with an unrelated simulation
    other = gen.gen_spec(seed + 7777777, {'horizons': [5.0, 8.0], 'p_exact': 0.3})
    run_fresh(other, 5)
    cmp('interleaved', outcome(run_fresh(spec, seed)))
    # ... and after a simulation that died half-way (an invalid sample raises ValueError inside the event loop)
    def crashing():
        ctr = [0, False]
        N0, skw0 = gen.build(other, fault=('srv', 5, -1.0, ctr))
        ciw.seed(11)
        Q0 = CapSim(N0, **skw0); Q0._cap = 3000
        Q0.simulate_until_max_time(other['run']['T'])
    guarded(crashing, wall=20)
    cmp('after_crashed_simulation', outcome(run_fresh(spec, seed)))
    # reuse one Network object
    def build_net():
        N, _ = gen.build(spec)
        return N
    N, st, cr = guarded(build_net, wall=20)
    if st == 'ok':
        first = outcome(run_fresh(spec, seed, net=N))
        cmp('reuse_first', first)
        cmp('reuse_second', outcome(run_fresh(spec, seed, net=N)))
    # concurrent simulations on one Network object (only a demonstration of K9: always expected to differ when routing exists)
    if extra.get('concurrent') and A[0] == 'fp':
        def conc():
            N2, _ = gen.build(spec)
            ciw.seed(seed)
            Q1 = CapSim(N2, **gen.sim_kwargs(spec)); Q1._cap = 6000
            Q2 = CapSim(N2, **gen.sim_kwargs(spec)); Q2._cap = 6000
            T = spec['run']['T']
            # Q2 is only built (never run): Q1 alone must still behave like a fresh simulation
            Q1.simulate_until_max_time(T)
            return fingerprint(Q1)
        cmp('concurrent', outcome(guarded(conc, wall=40)))
    res['shared_state'] = has_shared_mutable_state(spec)
    if any(v[0] == 'diff' for v in res['cmp'].values()):
        res['spec'] = spec
    res['sample'] = {'seed': seed, 'n_nodes': spec['n'], 'classes': len(spec['classes']), 'records': res.get('nrec'),
                     'routing': {c: r['r'] for c, r in spec['routing'].items()}, 'exact': spec['exact'], 'T': spec['run']['T']}
    return res


def main(tier, vseed, replay=None):
    S = Summary('C15', tier, vseed)
    if replay:
        import json
        payload = json.load(open(replay))
        jobs = [payload['job'] if payload.get('job') and payload['job'].get('spec') else {'seed': payload['spec']['seed'], 'spec': payload['spec']}]
    else:
        jobs = [{'seed': vseed * 1000003 + k} for k in range(BUDGET[tier])]
    results, failures = runner.run_shards('ciwmon.special.c15', jobs, {'concurrent': True}, 900 if tier == 'quick' else 4 * 3600)
    for r in results:
        if 'harness_error' in r:
            S.harness_errors.append(r['harness_error'][-300:]); continue
        S.counters['runs'] += 1
        S.counters['status_' + r['status']] += 1
        for name, (verdict, d) in r['cmp'].items():
            S.counters['compared_' + name] += 1
            if verdict == 'eq':
                S.counters['equal_' + name] += 1
            elif verdict == 'skip':
                S.counters['skipped_' + name] += 1
            else:
                if name == 'concurrent':
                    S.known['K9'] += 1       # shared router objects are re-pointed to the newest Simulation: always K9
                elif name == 'reuse_second' and r.get('shared_state'):
                    S.known['K9'] += 1
                else:
                    S.viol.append(('not_reproducible_' + name, {'job': {'seed': r['seed'], 'spec': r.get('spec')}, 'spec': r.get('spec'),
                                                                   'witness': repr(d)[:600], 'shared_state': r.get('shared_state')}))
        if r.get('nrec', 0) > 0 and r['cmp']:
            S.sigs.add(r['sig'] + repr(r['features']))
            if len(S.samples) < 4: S.samples.append(r['sample'])
        if replay: print(r['cmp'])
    S.counters['comparisons'] = sum(v for k, v in S.counters.items() if k.startswith('compared_'))
    return S.finish(
        rule="generated specs; per spec a fresh reference run and re-runs under 4 scenarios (fresh, interleaved with an unrelated simulation, "
             "second Simulation on the same Network object, a second Simulation merely constructed on the same Network); fingerprints = all "
             "records as strings + final clock + tracker history + final populations; non-trivial = reference run produced records; distinct = "
             "(feature set, topology signature)",
        level='exploration', deciding='comparisons', replay=bool(replay), failures=failures,
        assumptions=["plain ciw.Simulation runs (only an event cap added)", "differences in the reuse scenario are attributed to the open finding K9 only "
                     "when the spec contains the shared mutable state K9 names (Cycle router, Sequential reneging / class-change-time distribution); the concurrent "
                     "scenario is a demonstration of K9 only"])


if __name__ == '__main__':
    if len(sys.argv) >= 4 and sys.argv[1] == '--shard':
        runner.shard_main(sys.argv[2:4], worker)
