"""Shared helpers for the differential / reference-model harnesses (C15, C16, C18, C19, C20)."""
import signal, traceback, os, time, json, collections
import ciw
from .. import gen, runner

INF = float('inf')


class Cap(Exception):
    pass


class WallTimeout(Exception):
    pass


def _alarm(*a):
    raise WallTimeout()


class CapSim(ciw.Simulation):
    """Plain simulation with an event cap and a tie counter (no other instrumentation)."""
    _cap = 20000
    _nev = 0
    _ties = 0

    def event_and_return_nextnode(self, nd):
        self._nev += 1
        if self._nev > self._cap:
            raise Cap()
        return super().event_and_return_nextnode(nd)

    def find_next_active_node(self):
        m = INF; k = 0
        for nd in self.active_nodes:
            if nd.next_event_date < m: m = nd.next_event_date; k = 1
            elif nd.next_event_date == m: k += 1
        if k > 1: self._ties += 1
        return super().find_next_active_node()


def guarded(fn, wall=60):
    """Run fn() under a wall-clock watchdog. Returns (value, status, crash)."""
    old = signal.signal(signal.SIGALRM, _alarm)
    try:
        signal.alarm(wall)
        return fn(), 'ok', None
    except WallTimeout:
        return None, 'timeout', None
    except Cap:
        return None, 'cap', None
    except Exception as e:
        tb = traceback.extract_tb(e.__traceback__)
        fr = [f for f in tb if os.sep + 'ciw' + os.sep in f.filename and 'ciwmon' not in f.filename]
        last = fr[-1] if fr else tb[-1]
        return None, 'crash', (type(e).__name__, str(e)[:80], last.name)
    finally:
        signal.alarm(0)
        signal.signal(signal.SIGALRM, old)


def all_individuals(Q):
    out = []
    for nd in Q.nodes[1:]:
        out += list(nd.all_individuals)
    return out


def fingerprint(Q):
    recs = []
    for i in sorted(all_individuals(Q), key=lambda i: i.id_number):
        for r in i.data_records:
            recs.append(tuple(str(x) for x in r))
    return (recs, str(Q.current_time), [(str(a), str(b)) for a, b in Q.statetracker.history],
            [len(nd.all_individuals) for nd in Q.nodes[1:]])


def first_diff(a, b):
    if a[1] != b[1]: return ('clock', a[1], b[1])
    if a[3] != b[3]: return ('populations', a[3], b[3])
    if len(a[0]) != len(b[0]): return ('number_of_records', len(a[0]), len(b[0]))
    for x, y in zip(a[0], b[0]):
        if x != y: return ('record', x, y)
    if a[2] != b[2]: return ('tracker_history', len(a[2]), len(b[2]))
    return None


class Summary:
    """Merges shard results of a special check into verdict + evidence."""

    def __init__(self, prop, tier, vseed):
        self.prop, self.tier, self.vseed = prop, tier, vseed
        self.t0 = time.time()
        self.counters = collections.Counter()
        self.viol = []          # (code, payload)
        self.known = collections.Counter()
        self.samples = []
        self.sigs = set()
        self.harness_errors = []

    def finish(self, rule, level, deciding, extra_cov=None, assumptions=None, replay=False, failures=None):
        paths = []
        seen = set()
        for code, payload in self.viol:
            key = (code, json.dumps(payload.get('job'), sort_keys=True, default=str))
            if key in seen: continue
            seen.add(key)
            paths.append(runner.write_replay(self.prop, code, dict(payload, property=self.prop, code=code, tier=self.tier)))
        inconclusive = None
        if not replay:
            if failures: inconclusive = 'shard_failures:' + repr(failures)[:300]
            elif self.harness_errors: inconclusive = 'harness_errors:' + self.harness_errors[0][:300]
            elif self.counters[deciding] == 0: inconclusive = 'deciding_monitor_never_evaluated(%s)' % deciding
        cov = dict(evaluations=int(self.counters['runs']), distinct_nontrivial=len(self.sigs), rule=rule,
                   samples=self.samples[:4] or ['none'], monitor_evaluations=dict(self.counters),
                   known_findings_seen=dict(self.known), inconclusive=bool(inconclusive), inconclusive_reason=inconclusive,
                   harness_errors=self.harness_errors[:5])
        if extra_cov: cov.update(extra_cov)
        if not replay:
            runner.write_evidence(self.prop, self.tier, self.vseed, level, cov, time.time() - self.t0, len(paths), assumptions or [])
        print('%s tier=%s %s known=%s wall=%.1fs' % (self.prop, self.tier, dict(self.counters), dict(self.known), time.time() - self.t0))
        from .. import taint
        open_k = taint.open_findings()
        lines = ['%s occurrences=%d %s' % (k, n, open_k[k]['trigger']) for k, n in sorted(self.known.items()) if k in open_k]
        return runner.finish(self.prop, paths, lines, inconclusive)


def reaches_open_finding(spec, cap=8000, wall=30):
    """Does a monitored run of this spec meet the trigger of an open state-corrupting finding (K2, K19)? The differential
    harnesses drop such specs (counted): after the trigger the engine state is corrupt and two runs that should agree need not."""
    from .. import core, taint
    sp = dict(spec); sp['tie'] = 'native'
    tr, Q, status, crash = core.run_spec(sp, cap=cap, wall=wall)
    cut = taint.scan(sp, tr)
    return cut['finding'] if cut else None
