"""Sharded execution of trace-based checks, merging, verdict, evidence and replay files."""
import sys, os, json, time, subprocess, tempfile, collections, shutil

HERE = os.path.dirname(os.path.abspath(__file__))
ROOT = os.path.dirname(HERE)
REPO = os.environ.get('CIW_REPO', '/repo')
PY = os.environ.get('CIW_PYTHON', '/venv/bin/python')
NPROC = int(os.environ.get('VERIF_NPROC', '16'))


def child_env():
    env = dict(os.environ)
    env['PYTHONPATH'] = REPO + os.pathsep + ROOT
    env['PYTHONHASHSEED'] = '0'
    env['PYTHONDONTWRITEBYTECODE'] = '1'
    env['CIW_VERIF'] = '1'
    return env


def run_shards(module, jobs, extra, timeout, nproc=None):
    """jobs: list of JSON-able job descriptions. Each shard runs `python -B -m <module> --shard in out`.
    Returns (list of per-job results, list of shard failures)."""
    nproc = nproc or NPROC
    nsh = max(1, min(nproc, len(jobs)))
    tmp = tempfile.mkdtemp(prefix='ciwmon_', dir=os.environ.get('VERIF_TMP', None))
    procs = []
    try:
        for i in range(nsh):
            chunk = jobs[i::nsh]
            fin = os.path.join(tmp, 'in%d.json' % i); fout = os.path.join(tmp, 'out%d.json' % i)
            with open(fin, 'w') as f:
                json.dump({'jobs': chunk, 'extra': extra}, f)
            p = subprocess.Popen([PY, '-B', '-m', module, '--shard', fin, fout], env=child_env(), cwd=ROOT,
                                 stdout=subprocess.DEVNULL, stderr=subprocess.PIPE)
            procs.append((p, fout, len(chunk)))
        results, failures = [], []
        deadline = time.time() + timeout
        for p, fout, n in procs:
            try:
                _, err = p.communicate(timeout=max(1, deadline - time.time()))
            except subprocess.TimeoutExpired:
                p.kill(); p.communicate()
                failures.append(('shard_timeout', n)); err = b''
            if os.path.exists(fout):
                try:
                    with open(fout) as f:
                        results += json.load(f)
                except Exception as e:
                    failures.append(('shard_output_unreadable', repr(e)))
            elif p.returncode != 0:
                failures.append(('shard_failed', p.returncode, err.decode(errors='replace')[-800:]))
        return results, failures
    finally:
        shutil.rmtree(tmp, ignore_errors=True)


def shard_main(argv, worker):
    """Common shard entry: reads jobs, calls worker(job, extra) per job, dumps results incrementally."""
    fin, fout = argv
    with open(fin) as f:
        d = json.load(f)
    out = []
    for job in d['jobs']:
        try:
            out.append(worker(job, d['extra']))
        except Exception as e:
            import traceback
            out.append({'job': job, 'harness_error': traceback.format_exc()[-1500:]})
        # write after every job so that a killed shard still reports what it did
        with open(fout + '.tmp', 'w') as f:
            json.dump(out, f, default=str)
        os.replace(fout + '.tmp', fout)


def out_root():
    # self-tests on deliberately broken trees must not overwrite the evidence of the real tree
    return '/tmp/ciwmon_selftest' if os.environ.get('VERIF_NO_EVIDENCE') else ROOT


def write_evidence(prop, tier, vseed, level, coverage, wall, violations, assumptions):
    ROOT = out_root()
    os.makedirs(os.path.join(ROOT, 'evidence'), exist_ok=True)
    ev = dict(property_id=prop, tier=tier, seed=vseed, level=level, coverage=coverage, assumptions=assumptions,
              wall_s=round(wall, 2), violations=violations)
    path = os.path.join(ROOT, 'evidence', prop + '.json')
    with open(path + '.tmp', 'w') as f:
        json.dump(ev, f, indent=1, default=str)
    os.replace(path + '.tmp', path)
    return path


def write_replay(prop, code, payload):
    import hashlib
    ROOT = out_root()
    os.makedirs(os.path.join(ROOT, 'replays'), exist_ok=True)
    h = hashlib.sha1(json.dumps(payload, sort_keys=True, default=str).encode()).hexdigest()[:10]
    path = os.path.join(ROOT, 'replays', '%s-%s-%s.json' % (prop, code, h))
    with open(path, 'w') as f:
        json.dump(payload, f, indent=1, default=str)
    return path


def finish(prop, violations, known_lines, inconclusive_reason):
    """Print the verdict lines and return the exit code."""
    for line in known_lines:
        print('KNOWN-FINDING: property=%s %s' % (prop, line))
    if violations:
        for path in violations[:20]:
            print('VIOLATION property=%s replay=%s' % (prop, path))
        return 1
    if inconclusive_reason:
        print('INCONCLUSIVE property=%s reason=%s' % (prop, inconclusive_reason))
        return 3
    print('HELD property=%s (on everything explored; see evidence/%s.json)' % (prop, prop))
    return 0
