"""Workload generation: JSON-serialisable network specs, and building real ciw objects from them.

gen_spec(seed, profile) -> spec     (pure function of its arguments)
build(spec, logs)      -> (ciw.Network, simulation kwargs)

Every distribution handed to ciw is a LogDist wrapper that delegates to a real ciw distribution
and appends (stream, t, customer id, value) to a log shared across deep copies.
"""
import random, math, copy, json
import ciw

INF = float('inf')


# ------------------------------------------------------------------ logging wrappers
class LogDist(ciw.dists.Distribution):
    """Delegates to a real ciw distribution and logs every sample."""

    def __init__(self, base, stream, log):
        self.base = base
        self.stream = stream
        self.log = log

    def sample(self, t=None, ind=None):
        v = self.base.sample(t, ind)
        self.log.append((self.stream, t, getattr(ind, 'id_number', None), v))
        return v

    def __deepcopy__(self, memo):
        return LogDist(copy.deepcopy(self.base, memo), self.stream, self.log)  # log stays shared

    def __repr__(self):
        return "Log(%r)" % (self.base,)


class FaultDist(ciw.dists.Distribution):
    """Returns `bad` at the k-th call, otherwise delegates (negative-path workload for C10)."""

    def __init__(self, base, k, bad, counter):
        self.base, self.k, self.bad, self.counter = base, k, bad, counter

    def sample(self, t=None, ind=None):
        self.counter[0] += 1
        if self.counter[0] == self.k:
            self.counter[1] = True
            return self.bad
        return self.base.sample(t, ind)

    def __deepcopy__(self, memo):
        return FaultDist(copy.deepcopy(self.base, memo), self.k, self.bad, self.counter)


class TimeDep(ciw.dists.Distribution):
    """Custom time-dependent distribution (documented extension point): value depends on the clock."""
    def __init__(self, vals, period):
        self.vals, self.period = vals, period
    def sample(self, t=None, ind=None):
        return self.vals[int(float(t or 0.0) // self.period) % len(self.vals)]


class StateDep(ciw.dists.Distribution):
    """Custom state-dependent service distribution: depends on the population of the customer's node."""
    def __init__(self, base, slope):
        self.base, self.slope = base, slope
    def sample(self, t=None, ind=None):
        n = 0
        if ind is not None and getattr(ind, 'simulation', False) and ind.node:
            n = min(ind.simulation.nodes[ind.node].number_of_individuals, 5)
        return self.base + self.slope * n


def make_dist(spec):
    if spec is None:
        return None
    D = ciw.dists
    k = spec['d']
    if k == 'exp': return D.Exponential(spec['rate'])
    if k == 'det': return D.Deterministic(spec['v'])
    if k == 'uni': return D.Uniform(spec['a'], spec['b'])
    if k == 'seq': return D.Sequential(list(spec['s']))
    if k == 'tri': return D.Triangular(spec['a'], spec['m'], spec['b'])
    if k == 'gamma': return D.Gamma(spec['shape'], spec['scale'])
    if k == 'pmf': return D.Pmf(list(spec['vals']), list(spec['probs']))
    if k == 'emp': return D.Empirical(list(spec['obs']))
    if k == 'erl': return D.Erlang(spec['rate'], spec['k'])
    if k == 'hyp': return D.HyperExponential(list(spec['rates']), list(spec['probs']))
    if k == 'weib': return D.Weibull(spec['scale'], spec['shape'])
    if k == 'logn': return D.Lognormal(spec['mean'], spec['sd'])
    if k == 'sum': return make_dist(spec['l']) + make_dist(spec['r'])
    if k == 'norm': return D.Normal(spec['mean'], spec['sd'])
    if k == 'coxian': return D.Coxian(list(spec['rates']), list(spec['probs']))
    if k == 'hypererl': return D.HyperErlang(list(spec['rates']), list(spec['probs']), list(spec['lengths']))
    if k == 'mix': return D.MixtureDistribution([make_dist(x) for x in spec['dists']], list(spec['probs']))
    if k == 'pint': return D.PoissonIntervals(list(spec['rates']), list(spec['endpoints']), spec['max'])
    if k == 'prod': return make_dist(spec['l']) * make_dist(spec['r'])
    if k == 'timedep': return TimeDep(list(spec['vals']), spec['period'])
    if k == 'statedep': return StateDep(spec['base'], spec['slope'])
    if k == 'poisson': return D.Poisson(spec['rate'])
    if k == 'geom': return D.Geometric(spec['p'])
    if k == 'binom': return D.Binomial(spec['n'], spec['p'])
    raise ValueError(k)


def rand_time_dist(r, lattice, scale=1.0, allow_zero=False, grid=0.5):
    """lattice=True -> values on a `grid` lattice so that ties are frequent."""
    if lattice:
        c = r.random()
        if c < 0.4:
            return {'d': 'det', 'v': r.choice([1, 2, 3, 4, 6]) * grid * scale}
        if c < 0.8:
            n = r.randint(2, 5)
            lo = 0 if allow_zero else 1
            return {'d': 'seq', 's': [r.randint(lo, 6) * grid * scale for _ in range(n)]}
        vals = sorted(set(r.randint(1, 6) * grid * scale for _ in range(3)))
        p = [1.0 / len(vals)] * len(vals)
        return {'d': 'pmf', 'vals': vals, 'probs': p}
    c = r.random()
    if c < 0.45:
        return {'d': 'exp', 'rate': round(r.uniform(0.3, 3.0) / scale, 3)}
    if c < 0.6:
        a = round(r.uniform(0.05, 1.0) * scale, 3)
        return {'d': 'uni', 'a': a, 'b': round(a + r.uniform(0.1, 2.0) * scale, 3)}
    if c < 0.7:
        return {'d': 'gamma', 'shape': round(r.uniform(0.5, 3), 2), 'scale': round(r.uniform(0.2, 1.0) * scale, 3)}
    if c < 0.8:
        return {'d': 'erl', 'rate': round(r.uniform(1.0, 4.0) / scale, 3), 'k': r.randint(1, 3)}
    if c < 0.86:
        return {'d': 'sum', 'l': {'d': 'exp', 'rate': round(r.uniform(1, 4) / scale, 3)},
                'r': {'d': 'uni', 'a': 0.01, 'b': round(0.5 * scale, 3)}}
    if c < 0.9:
        return {'d': 'hyp', 'rates': [round(2.0 / scale, 3), round(0.7 / scale, 3)], 'probs': [0.5, 0.5]}
    if c < 0.92:
        return {'d': 'weib', 'scale': round(r.uniform(0.4, 1.5) * scale, 3), 'shape': round(r.uniform(0.8, 2.5), 2)}
    if c < 0.96:
        a = round(r.uniform(0.05, 0.5) * scale, 3)
        return {'d': 'tri', 'a': a, 'm': round(a + 0.3 * scale, 3), 'b': round(a + 1.0 * scale, 3)}
    c2 = r.random()
    if c2 < 0.15: return {'d': 'logn', 'mean': round(r.uniform(-1.0, 0.0), 2), 'sd': 0.5}
    if c2 < 0.3: return {'d': 'norm', 'mean': round(0.8 * scale, 3), 'sd': round(0.3 * scale, 3)}
    if c2 < 0.45: return {'d': 'emp', 'obs': [round(r.uniform(0.1, 2.0) * scale, 3) for _ in range(5)]}
    if c2 < 0.6: return {'d': 'coxian', 'rates': [round(2.0 / scale, 3), round(1.0 / scale, 3), round(3.0 / scale, 3)], 'probs': [0.4, 0.5, 1.0]}
    if c2 < 0.75: return {'d': 'hypererl', 'rates': [round(3.0 / scale, 3), round(1.5 / scale, 3)], 'probs': [0.4, 0.6], 'lengths': [2, 1]}
    if c2 < 0.9: return {'d': 'mix', 'dists': [{'d': 'exp', 'rate': round(2.0 / scale, 3)}, {'d': 'det', 'v': round(0.6 * scale, 3)}], 'probs': [0.6, 0.4]}
    return {'d': 'prod', 'l': {'d': 'uni', 'a': 0.5, 'b': 1.5}, 'r': {'d': 'det', 'v': round(0.7 * scale, 3)}}


BATCH_CHOICES = [{'d': 'det', 'v': 2}, {'d': 'seq', 's': [1, 3, 0, 2]},
                 {'d': 'pmf', 'vals': [1, 2, 4], 'probs': [0.5, 0.3, 0.2]}, {'d': 'poisson', 'rate': 1.5},
                 {'d': 'geom', 'p': 0.6}, {'d': 'binom', 'n': 3, 'p': 0.5}, {'d': 'det', 'v': 1}]


def gen_spec(seed, profile=None):
    """Random network specification. `profile` restricts / biases the generator."""
    r = random.Random(seed)
    profile = profile or {}
    P = lambda name, default: profile.get(name, default)
    n = r.choice(P('n_nodes', [1, 1, 2, 2, 3, 3, 4]))
    ncls = r.choice(P('n_classes', [1, 1, 2, 2, 3]))
    classes = ['C%d' % i for i in range(ncls)]
    lattice = r.random() < P('p_lattice', 0.35)
    spec = {'seed': seed, 'n': n, 'classes': classes, 'lattice': lattice}
    ps = r.random() < P('p_ps', 0.12)
    nodes = []
    for i in range(n):
        kind_roll = r.random()
        nd = {}
        if ps and r.random() < P('p_ps_node', 0.6):
            nd['node_class'] = 'PS'
            nd['servers'] = {'kind': 'inf'} if r.random() < 0.4 else {'kind': 'int', 'c': r.randint(1, 3)}
            nd['ps_threshold'] = r.choice([1, 1, 2, 3])
        else:
            nd['node_class'] = 'Node'
            nd['ps_threshold'] = 1
            p_int, p_inf, p_sched, p_slot = P('p_kinds', (0.55, 0.10, 0.23, 0.12))
            if kind_roll < p_int:
                cs = list(P('int_servers', [1, 1, 2, 2, 3]))
                if P('zero', True) and r.random() < 0.08:
                    cs = [0]
                nd['servers'] = {'kind': 'int', 'c': r.choice(cs)}
            elif kind_roll < p_int + p_inf:
                nd['servers'] = {'kind': 'inf'}
            elif kind_roll < p_int + p_inf + p_sched:
                k = r.randint(1, 4)
                nums = [r.choice(P('shift_servers', [0, 1, 1, 2, 3])) for _ in range(k)]
                if sum(nums) == 0:
                    nums[r.randrange(k)] = 1
                ends, t = [], 0.0
                for _ in range(k):
                    t += r.choice([0.5, 1.0, 1.5, 2.0, 3.0, 4.0]) if lattice else round(r.uniform(0.3, 4.0), 2)
                    ends.append(t)
                nd['servers'] = {'kind': 'schedule', 'nums': nums, 'ends': ends,
                                 'preempt': r.choice(P('sched_preempt', [False, False, 'resume', 'restart', 'resample', 'reroute'])),
                                 'offset': r.choice([0.0, 0.0, 0.5, 1.0, 2.5])}
            else:
                k = r.randint(1, 3)
                slots, t = [], 0.0
                for _ in range(k):
                    t += r.choice([0.5, 1.0, 1.5, 2.0]) if lattice else round(r.uniform(0.3, 2.5), 2)
                    slots.append(t)
                cap = r.random() < 0.5
                nd['servers'] = {'kind': 'slotted', 'slots': slots, 'sizes': [r.choice([0, 1, 1, 2, 3]) for _ in range(k)],
                                 'capacitated': cap,
                                 'preempt': r.choice(P('slot_preempt', [False, 'resume', 'restart', 'resample'])) if cap else False,
                                 'offset': r.choice([0.0, 0.0, 1.0])}
        kind = nd['servers']['kind']
        p_q = P('p_qcap', 0.45)
        if kind in ('schedule', 'slotted'):
            p_q = P('p_qcap_sched', 0.15)
        nd['qcap'] = 'inf' if r.random() > p_q else r.choice(P('qcaps', [0, 0, 1, 1, 2, 3]))
        nd['discipline'] = r.choice(P('disciplines', ['FIFO', 'FIFO', 'FIFO', 'LIFO', 'SIRO']))
        nd['spf'] = r.choice(['last', 'least_busy']) if (r.random() < P('p_spf', 0.15) and kind in ('int', 'schedule') and nd['node_class'] == 'Node') else None
        nodes.append(nd)
    spec['nodes'] = nodes
    # priorities
    # PS nodes index their customers by position in the priority-ordered list: priorities x PS is outside the validity domain
    if ncls > 1 and r.random() < P('p_prio', 0.5) and not any(nd['node_class'] == 'PS' for nd in nodes):
        k = r.randint(2 if P('force_distinct_prio', False) else 1, ncls)
        pr = [r.randrange(k) for _ in classes]
        if P('force_distinct_prio', False) and len(set(pr)) < 2:
            pr = list(range(ncls))
            r.shuffle(pr)
        used = sorted(set(pr)); remap = {u: i for i, u in enumerate(used)}
        pr = [remap[p] for p in pr]
        spec['priorities'] = dict(zip(classes, pr))
        if r.random() < P('p_prio_preempt', 0.6):
            spec['prio_preempt'] = [r.choice(P('prio_preempt_opts', [False, 'resume', 'restart', 'resample', 'reroute'])) for _ in range(n)]
        else:
            spec['prio_preempt'] = None
    else:
        spec['priorities'] = None
        spec['prio_preempt'] = None
    # arrivals / services / behaviour
    arr, srv, bat, ren, blk = {}, {}, {}, {}, {}
    any_arr = False
    use_ren = r.random() < P('p_renege', 0.3)
    use_blk = r.random() < P('p_baulk', 0.25)
    use_bat = r.random() < P('p_batch', 0.25)
    for c in classes:
        arr[c], srv[c], bat[c], ren[c], blk[c] = [], [], [], [], []
        for i in range(n):
            if r.random() < P('p_arrival', 0.65):
                d_ = rand_time_dist(r, lattice, scale=P('arr_scale', 1.0) * ncls, allow_zero=False)
                if lattice and d_['d'] == 'seq' and r.random() < P('p_zero_first_arrival', 0.15):
                    d_['s'][0] = 0.0      # a first arrival at time 0 is a valid input
                if r.random() < P('p_custom_dist', 0.08) * 0.6:
                    g_ = 0.5 if lattice else 0.43
                    d_ = {'d': 'timedep', 'vals': [g_ * r.randint(1, 5) * ncls for _ in range(r.randint(2, 3))], 'period': r.choice([2.0, 3.5, 5.0])}
                if not lattice and r.random() < P('p_composite_seq', 0.08):
                    d_ = {'d': 'sum', 'l': {'d': 'seq', 's': [round(r.uniform(0.1, 1.5), 3) for _ in range(r.randint(2, 4))]}, 'r': d_}
                arr[c].append(d_); any_arr = True
            else:
                arr[c].append(None)
            sd_ = rand_time_dist(r, lattice, scale=P('srv_scale', 0.8), allow_zero=lattice and r.random() < P('p_zero_service', 0.2))
            u_ = r.random()
            if u_ < P('p_custom_dist', 0.08):
                g_ = 0.5 if lattice else 0.37
                sd_ = {'d': 'statedep', 'base': g_ * r.randint(1, 3), 'slope': g_ * r.choice([0, 1, 1, 2]) * 0.5} if r.random() < 0.5 else \
                      {'d': 'timedep', 'vals': [g_ * r.randint(1, 4) for _ in range(r.randint(2, 3))], 'period': r.choice([1.0, 2.5, 4.0])}
            srv[c].append(sd_)
            if use_bat and r.random() < 0.6:
                bat[c].append(r.choice(BATCH_CHOICES))
            else:
                bat[c].append(None)
            ren[c].append(rand_time_dist(r, lattice, scale=P('ren_scale', 1.5)) if use_ren and r.random() < 0.6 else None)
            blk[c].append(r.choice([{'b': 'thresh', 'k': r.randint(0, 4)}, {'b': 'lin', 'k': r.randint(2, 6)},
                                    {'b': 'const', 'p': r.choice([0.0, 0.3, 1.0])}]) if use_blk and r.random() < 0.6 else None)
    if not any_arr:
        arr[classes[0]][0] = rand_time_dist(r, lattice, scale=1.0)
    if r.random() < P('p_share_objects', 0.15):
        spec['share_objects'] = True
        slots = [(c, i) for c in classes for i in range(n)]
        if len(slots) > 1:
            (c1, i1), (c2, i2) = r.sample(slots, 2)
            if arr[c1][i1] is not None: arr[c2][i2] = copy.deepcopy(arr[c1][i1]); any_arr = True
            srv[c2][i2] = copy.deepcopy(srv[c1][i1])
    spec.update(arrivals=arr, services=srv, batching=bat if use_bat else None, reneging=ren if use_ren else None,
                baulking=blk if use_blk else None)
    # routing
    rt = {}
    for c in classes:
        kind = r.choice(P('routing_kinds', ['tm', 'tm', 'tm', 'nr', 'nr', 'pb', 'fpb']))
        if kind == 'tm':
            M = []
            for i in range(n):
                w = [r.choice(P('tm_weights', [0, 0, 1, 2])) for _ in range(n)]
                leave = r.choice([1, 2, 3])
                tot = sum(w) + leave
                row = [round(x / tot * 0.999, 3) if x else 0.0 for x in w]
                if r.random() < P('p_noleave', 0.15) and sum(w) > 0:
                    nz = [j for j, x in enumerate(w) if x]
                    row = [0.0] * n
                    if len(nz) == 1: row[nz[0]] = 1.0
                    else:
                        for j in nz[:2]: row[j] = 0.5
                M.append(row)
            rt[c] = {'r': 'tm', 'M': M}
        elif kind == 'nr':
            routers = []
            for i in range(n):
                k = r.choice(P('node_routers', ['leave', 'direct', 'prob', 'jsq', 'lb', 'cycle']) + (['jockey', 'jockey'] if use_ren and n > 1 else []))
                if k == 'leave': routers.append({'k': 'leave'})
                elif k == 'jockey': routers.append({'k': 'jockey', 'to': r.choice([j for j in range(1, n + 1) if j != i + 1])})
                elif k == 'direct': routers.append({'k': 'direct', 'to': r.choice(list(range(1, n + 1)) + [-1])})
                elif k == 'prob':
                    m = r.randint(1, n); dests = r.sample(range(1, n + 1), m)
                    ps_ = [round(0.9 / m, 3)] * m
                    if r.random() < 0.3: ps_[0] = 0.0
                    routers.append({'k': 'prob', 'dests': dests, 'probs': ps_})
                elif k in ('jsq', 'lb'):
                    m = r.randint(1, n); dests = r.sample(range(1, n + 1), m)
                    routers.append({'k': k, 'dests': dests, 'tie': r.choice(['random', 'order'])})
                else:
                    m = r.randint(1, 4)
                    routers.append({'k': 'cycle', 'cycle': [r.choice(list(range(1, n + 1)) + [-1]) for _ in range(m)]})
            rt[c] = {'r': 'nr', 'routers': routers}
        elif kind == 'pb':
            routes = [[r.randint(1, n) for _ in range(r.randint(0, 3))] for _ in range(3)]
            rt[c] = {'r': 'pb', 'routes': routes}
        else:
            routes = [[r.sample(range(1, n + 1), r.randint(1, n)) for _ in range(r.randint(0, 3))] for _ in range(3)]
            rt[c] = {'r': 'fpb', 'routes': routes, 'rule': r.choice(['any', 'all']), 'choice': r.choice(['random', 'jsq', 'lb'])}
            if P('p_fpb_dup', 0.0) > 0:   # own stream; a stage may list a node twice (two visits wanted under rule 'all')
                rd = random.Random(seed * 19 + 7 + len(rt))
                if rd.random() < P('p_fpb_dup', 0.0):
                    stages = [st for route in routes for st in route if st]
                    if stages:
                        st = rd.choice(stages); st.append(rd.choice(st))
    spec['routing'] = rt
    # class change after service
    if ncls > 1 and r.random() < P('p_ccm', 0.3):
        ccm = []
        for i in range(n):
            m = {}
            for a in classes:
                w = [r.choice([0, 0, 1, 2]) for _ in classes]
                if sum(w) == 0: w[classes.index(a)] = 1
                nz = [b for b, x in zip(classes, w) if x]
                row = {b: 0.0 for b in classes}
                if len(nz) == 1: row[nz[0]] = 1.0
                elif len(nz) == 2: row[nz[0]] = 0.5; row[nz[1]] = 0.5
                else: row[nz[0]] = 0.5; row[nz[1]] = 0.25; row[nz[2]] = 0.25
                m[a] = row
            ccm.append(m)
        spec['ccm'] = ccm
    else:
        spec['ccm'] = None
    if ncls > 1 and r.random() < P('p_cct', 0.2):
        cct = {}
        for a in classes:
            for b in classes:
                if a != b and r.random() < 0.5:
                    cct.setdefault(a, {})[b] = rand_time_dist(r, lattice, scale=1.5)
        spec['cct'] = cct or None
    else:
        spec['cct'] = None
    if (spec['ccm'] or spec['cct']) and ncls > 1:
        kinds = set(v['r'] for v in rt.values())
        if kinds & {'pb', 'fpb'} and len(kinds) > 1:
            # a customer that changes into a process-based class must own a route: one routing family for all
            first = [v for v in rt.values() if v['r'] in ('pb', 'fpb')][0]
            for c in classes:
                if rt[c]['r'] != first['r']:
                    rt[c] = copy.deepcopy(first)
    # keep most runs clear of the two open state-corrupting findings (K19: reroute back to the same node, K2: a
    # pre-emptive shift end hitting a blocked customer) so that they are judged to the end; a share still goes there
    if r.random() < P('p_avoid_known', 0.85):
        for i, nd in enumerate(nodes):
            rr = (spec['prio_preempt'] and spec['prio_preempt'][i] == 'reroute') or nd['servers'].get('preempt') == 'reroute'
            if not rr: continue
            for c in classes:
                q = rt[c]
                if q['r'] == 'tm': q['M'][i][i] = 0.0
                elif q['r'] == 'nr':
                    x = q['routers'][i]
                    if x['k'] == 'direct' and x['to'] == i + 1: x['to'] = -1
                    elif x['k'] in ('prob', 'jsq', 'lb') and (i + 1) in x['dests']:
                        j = x['dests'].index(i + 1)
                        x['dests'].pop(j)
                        if x['k'] == 'prob': x['probs'].pop(j)
                        if not x['dests']: q['routers'][i] = {'k': 'leave'}
                    elif x['k'] == 'cycle':
                        x['cycle'] = [d for d in x['cycle'] if d != i + 1] or [-1]
        if any(nd['servers'].get('preempt') for nd in nodes if nd['servers']['kind'] in ('schedule', 'slotted')):
            for nd in nodes: nd['qcap'] = 'inf'
    spec['syscap'] = r.choice([1, 2, 3, 5, 8]) if r.random() < P('p_syscap', 0.15) else None
    has_ps = any(nd['node_class'] == 'PS' for nd in nodes)
    spec['exact'] = r.choice([12, 20, 26]) if r.random() < P('p_exact', 0.1) and not has_ps else False
    spec['tracker'] = r.choice(P('trackers', [None, 'SystemPopulation', 'NodePopulation', 'NodePopulationSubset',
                                              'GroupedNodePopulation', 'NodeClassMatrix', 'NaiveBlocking', 'MatrixBlocking']))
    T = r.choice(P('horizons', [10.0, 20.0, 30.0, 50.0]))
    method = r.choice(P('run_methods', ['time']))
    run = {'method': method, 'T': T}
    if method == 'customers':
        run['n'] = r.randint(1, P('max_customers', 40))
        run['cmethod'] = r.choice(['Complete', 'Finish', 'Arrive', 'Accept'])
        if P('p_again', 0.0) > 0:   # own stream: specs of profiles without p_again are unchanged
            run['again'] = random.Random(seed * 13 + 5).random() < P('p_again', 0.0)
    if method == 'time' and P('p_split', 0.0) > 0:   # own stream: specs of profiles without p_split are unchanged
        r4 = random.Random(seed * 17 + 3)
        if r4.random() < P('p_split', 0.0):
            run['splits'] = sorted(round(r4.uniform(0.05, 0.95) * T, 6) for _ in range(r4.randint(1, 3)))
    spec['run'] = run
    spec['tie'] = r.choice(P('tie_policies', ['native']))
    return spec


def baulk_fn(b):
    if b is None: return None
    if b['b'] == 'thresh':
        k = b['k']
        return lambda n: 1.0 if n >= k else 0.0
    if b['b'] == 'lin':
        k = b['k']
        return lambda n: min(1.0, n / k)
    p = b['p']
    return lambda n: p


def make_servers(s):
    if s['kind'] == 'int': return s['c']
    if s['kind'] == 'inf': return INF
    if s['kind'] == 'schedule':
        return ciw.Schedule(numbers_of_servers=list(s['nums']), shift_end_dates=list(s['ends']), preemption=s['preempt'], offset=s['offset'])
    return ciw.Slotted(slots=list(s['slots']), slot_sizes=list(s['sizes']), capacitated=s['capacitated'], preemption=s['preempt'], offset=s['offset'])


def _spf_last(srv, ind):
    return -srv.id_number


def _spf_least_busy(srv, ind):
    return srv.busy_time


SPF = {None: None, 'last': _spf_last, 'least_busy': _spf_least_busy}


class JockeyLeave(ciw.routing.Leave):
    """Leave router whose renegers jockey to a fixed node (documented customisation point)."""
    def __init__(self, to):
        self.jockey_to = to
    def next_node_for_jockeying(self, ind):
        return self.simulation.nodes[self.jockey_to]


def make_router(spec, n, rlog=None):
    R = ciw.routing
    if spec['r'] == 'tm':
        return R.TransitionMatrix(transition_matrix=[list(row) for row in spec['M']])
    if spec['r'] == 'nr':
        rs = []
        for q in spec['routers']:
            k = q['k']
            if k == 'leave': rs.append(R.Leave())
            elif k == 'direct': rs.append(R.Direct(to=q['to']))
            elif k == 'prob': rs.append(R.Probabilistic(destinations=list(q['dests']), probs=list(q['probs'])))
            elif k == 'jsq': rs.append(R.JoinShortestQueue(destinations=list(q['dests']), tie_break=q['tie']))
            elif k == 'lb': rs.append(R.LoadBalancing(destinations=list(q['dests']), tie_break=q['tie']))
            elif k == 'jockey': rs.append(JockeyLeave(q['to']))
            else: rs.append(R.Cycle(cycle=list(q['cycle'])))
        return R.NetworkRouting(routers=rs)
    routes = spec['routes']
    if spec['r'] == 'pb':
        def f(ind, simulation, routes=routes):
            rt = list(routes[ind.id_number % len(routes)])
            if rlog is not None: rlog[ind.id_number] = list(rt)
            return rt
        return R.ProcessBased(f)
    def g(ind, simulation, routes=routes):
        rt = [list(s) for s in routes[ind.id_number % len(routes)]]
        if rlog is not None: rlog[ind.id_number] = [list(s) for s in rt]
        return rt
    return R.FlexibleProcessBased(g, rule=spec['rule'], choice=spec['choice'])


class Logs:
    def __init__(self):
        self.slog = []   # (stream, t, customer id, value)
        self.rlog = {}   # customer id -> process-based route handed out
        self.blog = []   # (t, node, class, customer id, n passed, true population, returned p)


def make_discipline(name):
    """Built-in discipline by name, or a custom one: 'LINGER:<k>' serves the earliest arrival that has been at the node for at
    least k time units and nobody (returns None) when there is none - the 'lingering customers' use of custom disciplines that
    the repository's tests and change log describe; 'SECOND' picks the second waiting customer when there are several."""
    if name.startswith('LINGER:'):
        k = float(name.split(':')[1])

        def linger(individuals, t):
            ready = [ind for ind in individuals if (t - ind.arrival_date) >= k]
            return ready[0] if ready else None
        return linger
    if name == 'SECOND':
        def second(individuals, t):
            return individuals[1] if len(individuals) > 1 else individuals[0]
        return second
    return getattr(ciw.disciplines, name)


def build(spec, logs=None, fault=None):
    """Returns (network, simulation kwargs). `fault` = (stream kind, call index, bad value, counter) for C10."""
    n = spec['n']; classes = spec['classes']
    slog = logs.slog if logs is not None else None
    rlog = logs.rlog if logs is not None else None
    blog = logs.blog if logs is not None else None

    shared = {}

    def wrap(d, stream):
        if d is not None and spec.get('share_objects') and stream[0] in ('arr', 'srv', 'bat'):
            # the user passes one distribution object in several slots: each (node, class) stream must still get its own copy
            key = (stream[0], json.dumps(d, sort_keys=True))
            if key not in shared: shared[key] = make_dist(d)
            base = shared[key]
        else:
            base = make_dist(d)
        if base is None: return None
        if fault is not None and fault[0] == stream[0]:
            if fault[2] == 'COMBNEG':
                # both operands of a combined distribution are valid, their difference is not (k-th draw: base - 1e6); the combined
                # object itself is what the engine gets (no logging wrapper around it, whose own validation would mask it)
                inner = base if slog is None else LogDist(base, stream, slog)
                return inner - FaultDist(ciw.dists.Deterministic(0.0), fault[1], 1e6, fault[3])
            else:
                base = FaultDist(base, fault[1], fault[2], fault[3])
        if slog is None: return base
        return LogDist(base, stream, slog)
    arr = {c: [wrap(spec['arrivals'][c][i], ('arr', i + 1, c)) for i in range(n)] for c in classes}
    srv = {c: [wrap(spec['services'][c][i], ('srv', i + 1, c)) for i in range(n)] for c in classes}
    kw = dict(arrival_distributions=arr, service_distributions=srv,
              number_of_servers=[make_servers(nd['servers']) for nd in spec['nodes']],
              queue_capacities=[INF if nd['qcap'] == 'inf' else nd['qcap'] for nd in spec['nodes']],
              routing={c: make_router(spec['routing'][c], n, rlog) for c in classes},
              service_disciplines=[make_discipline(nd['discipline']) for nd in spec['nodes']],
              ps_thresholds=[nd['ps_threshold'] for nd in spec['nodes']])
    if any(nd.get('spf') for nd in spec['nodes']):
        kw['server_priority_functions'] = [SPF[nd.get('spf')] for nd in spec['nodes']]
    if spec.get('batching'):
        kw['batching_distributions'] = {c: [wrap(spec['batching'][c][i] or {'d': 'det', 'v': 1}, ('bat', i + 1, c)) for i in range(n)] for c in classes}
    if spec.get('reneging'):
        kw['reneging_time_distributions'] = {c: [wrap(spec['reneging'][c][i], ('ren', i + 1, c)) for i in range(n)] for c in classes}
    if spec.get('baulking'):
        def lb(f, c, i):
            if f is None: return None
            def g(n_, Q=None, next_ind=None, next_node=None):
                p = f(n_)
                if blog is not None:
                    blog.append((Q.current_time, i + 1, c, next_ind.id_number, n_, len(next_node.all_individuals), p))
                return p
            return g
        kw['baulking_functions'] = {c: [lb(baulk_fn(spec['baulking'][c][i]), c, i) for i in range(n)] for c in classes}
    if spec.get('priorities'):
        if spec.get('prio_preempt'):
            kw['priority_classes'] = (dict(spec['priorities']), list(spec['prio_preempt']))
        else:
            kw['priority_classes'] = dict(spec['priorities'])
    if spec.get('ccm'):
        # dictionaries are written in reverse key order for odd seeds: the meaning of a matrix must not depend on insertion order
        rev = bool(spec['seed'] % 2)
        def od(d_, f=lambda v: v):
            keys = sorted(d_, reverse=rev)
            return {k_: f(d_[k_]) for k_ in keys}
        kw['class_change_matrices'] = [od(m, lambda row: od(row)) for m in spec['ccm']]
    if spec.get('cct'):
        kw['class_change_time_distributions'] = {a: {b: wrap(d, ('cct', a, b)) for b, d in row.items()} for a, row in spec['cct'].items()}
    if spec.get('syscap'):
        kw['system_capacity'] = spec['syscap']
    if spec['seed'] % 2:
        # per-class dictionaries in reverse insertion order: nothing may depend on the order the user wrote the classes in
        for key in ('arrival_distributions', 'service_distributions', 'routing', 'batching_distributions', 'reneging_time_distributions', 'baulking_functions'):
            if isinstance(kw.get(key), dict):
                kw[key] = {c: kw[key][c] for c in sorted(kw[key], reverse=True)}
        if isinstance(kw.get('priority_classes'), dict):
            kw['priority_classes'] = {c: kw['priority_classes'][c] for c in sorted(kw['priority_classes'], reverse=True)}
        elif isinstance(kw.get('priority_classes'), tuple):
            m_, o_ = kw['priority_classes']
            kw['priority_classes'] = ({c: m_[c] for c in sorted(m_, reverse=True)}, o_)
    N = ciw.create_network(**kw)
    return N, sim_kwargs(spec)


def tracker_params(spec):
    """Parameters of the parameterised trackers, derived deterministically from the spec; orders are deliberately not always
    ascending (the meaning of a tracker state must follow the order the user gave)."""
    n = spec['n']; classes = list(spec['classes'])
    r = random.Random(spec['seed'] * 7 + 1)
    observed = list(range(0, n, 2)) if n < 3 or r.random() < 0.5 else r.sample(range(n), r.randint(1, n))
    if n > 1:
        idx = list(range(n)); r.shuffle(idx) if r.random() < 0.5 else None
        k = r.randint(1, n - 1)
        groups = [idx[:k], idx[k:]] if r.random() < 0.7 else [list(range(0, n, 2)), list(range(1, n, 2))]
        if r.random() < 0.3: groups = groups[::-1]
    else:
        groups = [[0]]
    co = list(classes)
    if r.random() < 0.5: co = co[::-1]
    r2 = random.Random(spec['seed'] * 11 + 3)   # own stream: the other parameters stay what they were
    if n >= 2 and r2.random() < 0.35:
        # groups need not cover the network: one node is left unobserved
        big = max(range(len(groups)), key=lambda k: len(groups[k]))
        if len(groups[big]) > 1:
            groups = [list(g) for g in groups]
            groups[big].pop(r2.randrange(len(groups[big])))
    return {'observed': observed, 'groups': groups, 'class_order': co}


def sim_kwargs(spec):
    n = spec['n']; classes = spec['classes']
    skw = {}
    if any(nd['node_class'] == 'PS' for nd in spec['nodes']):
        skw['node_class'] = [ciw.PSNode if nd['node_class'] == 'PS' else ciw.Node for nd in spec['nodes']]
    if spec.get('exact'):
        skw['exact'] = spec['exact']
    t = spec.get('tracker')
    if t:
        T = ciw.trackers
        tp = tracker_params(spec)
        if t == 'NodePopulationSubset': skw['tracker'] = T.NodePopulationSubset(list(tp['observed']))
        elif t == 'GroupedNodePopulation': skw['tracker'] = T.GroupedNodePopulation([list(g) for g in tp['groups']])
        elif t == 'NodeClassMatrix': skw['tracker'] = T.NodeClassMatrix(list(tp['class_order']))
        else: skw['tracker'] = getattr(T, t)()
    if spec.get('deadlock'):
        skw['deadlock_detector'] = ciw.deadlock.StateDigraph()
    return skw


def features(spec):
    """Feature flags of a spec (used for interaction coverage and scoping)."""
    f = set()
    nodes = spec['nodes']
    pp = spec.get('prio_preempt')
    if pp and any(pp):
        f.add('prio_preempt')
        for o in pp:
            if o: f.add('prio_' + o)
    if spec.get('priorities') and len(set(spec['priorities'].values())) > 1: f.add('priorities')
    for nd in nodes:
        k = nd['servers']['kind']
        f.add('srv_' + k)
        if nd['node_class'] == 'PS': f.add('ps')
        if k == 'schedule':
            if nd['servers']['preempt']: f.add('sched_preempt'); f.add('sched_' + str(nd['servers']['preempt']))
            if 0 in nd['servers']['nums']: f.add('zero_shift')
        if k == 'slotted' and nd['servers']['preempt']: f.add('slot_preempt')
        if k == 'slotted' and nd['servers']['capacitated']: f.add('slot_capacitated')
        if nd['qcap'] != 'inf' and k != 'inf': f.add('finite_cap')
        if k == 'int' and nd['servers']['c'] == 0: f.add('zero_servers')
        if k == 'int' and nd['servers']['c'] > 1: f.add('multi_server')
        f.add('disc_' + nd['discipline'])
    if spec.get('ccm'): f.add('ccm')
    if spec.get('cct'): f.add('cct')
    if spec.get('reneging'): f.add('reneging')
    if spec.get('baulking'): f.add('baulking')
    if spec.get('batching'): f.add('batching')
    if spec.get('syscap'): f.add('syscap')
    if spec.get('exact'): f.add('exact')
    if spec.get('lattice'): f.add('lattice')
    for c, r in spec['routing'].items():
        f.add('rt_' + r['r'])
        if r['r'] == 'nr':
            for q in r['routers']: f.add('nr_' + q['k'])
    if spec.get('tracker'): f.add('trk_' + spec['tracker'])
    if spec.get('tie', 'native') != 'native': f.add('tiefuzz')
    return f


def has_reroute(spec):
    if spec.get('prio_preempt') and 'reroute' in spec['prio_preempt']: return True
    return any(nd['servers'].get('preempt') == 'reroute' for nd in spec['nodes'])


def topo_signature(spec):
    """Coarse structural signature used for counting distinct cases."""
    return (spec['n'], len(spec['classes']),
            tuple((nd['node_class'], nd['servers']['kind'], nd['servers'].get('c'), nd['qcap'], nd['discipline']) for nd in spec['nodes']),
            tuple(sorted((c, r['r']) for c, r in spec['routing'].items())))
