"""Workload profiles per property: generator biases, scope predicates, deciding-monitor counters, budgets."""
from . import gen

NOREROUTE_PRIO = [False, 'resume', 'restart', 'resample']
NOREROUTE_SCHED = [False, False, 'resume', 'restart', 'resample']

PROFILES = {
    'generic': {},
    'lattice': {'p_lattice': 1.0},
    'k2zone': {'p_kinds': (0.45, 0.0, 0.45, 0.1), 'sched_preempt': ['resume', 'restart', 'resample'], 'slot_preempt': ['resume', 'restart'], 'p_qcap': 0.8, 'p_qcap_sched': 0.3,
               'qcaps': [0, 0, 1, 2], 'p_avoid_known': 0.0, 'n_nodes': [2, 3], 'arr_scale': 0.7, 'p_ps': 0.0, 'prio_preempt_opts': [False, 'resume', 'restart']},
    'soak': {'horizons': [500.0, 1000.0], 'arr_scale': 2.5, 'srv_scale': 0.5, 'p_qcap': 0.3, 'p_syscap': 0.3, 'n_nodes': [1, 2, 3]},
    'soaklattice': {'horizons': [300.0, 600.0], 'arr_scale': 2.5, 'srv_scale': 0.5, 'p_lattice': 1.0, 'n_nodes': [1, 2, 3]},
    'slotall': {'p_kinds': (0.25, 0.0, 0.0, 0.75), 'p_ps': 0.0, 'p_qcap_sched': 0.3, 'arr_scale': 0.7},
    'infall': {'p_kinds': (0.3, 0.7, 0.0, 0.0), 'p_ps': 0.3},
    'exactall': {'p_exact': 1.0, 'p_ps': 0.0},
    'exactlattice': {'p_exact': 1.0, 'p_ps': 0.0, 'p_lattice': 1.0},
    'continuous': {'p_lattice': 0.0},
    'ring': {  # small capacities, cyclic routing, multi-server: blocking cascades
        'n_nodes': [2, 3, 3, 4], 'p_qcap': 0.85, 'qcaps': [0, 0, 1, 1, 2], 'p_kinds': (0.8, 0.0, 0.2, 0.0),
        'sched_preempt': [False], 'p_prio_preempt': 0.0, 'routing_kinds': ['tm', 'tm', 'nr'], 'tm_weights': [0, 1, 1, 2],
        'arr_scale': 0.7, 'p_ps': 0.0, 'p_noleave': 0.05},
    'c04util': {'p_prio_preempt': 0.0, 'sched_preempt': [False], 'slot_preempt': [False], 'p_kinds': (0.5, 0.0, 0.5, 0.0),
                'p_ps': 0.0, 'p_qcap': 0.5, 'run_methods': ['time']},
    'c05': {'p_kinds': (0.6, 0.0, 0.4, 0.0), 'p_ps': 0.0, 'arr_scale': 0.7, 'p_renege': 0.4, 'p_cct': 0.3, 'p_prio': 0.6},
    'c06': {'p_qcap': 0.85, 'p_qcap_sched': 0.0, 'p_syscap': 0.4, 'p_batch': 0.5, 'p_baulk': 0.3, 'prio_preempt_opts': NOREROUTE_PRIO,
            'sched_preempt': NOREROUTE_SCHED, 'arr_scale': 0.6},
    'c07': {'n_nodes': [1, 2, 2, 3, 3, 4], 'p_qcap': 0.85, 'p_qcap_sched': 0.3, 'qcaps': [0, 0, 1, 1, 2], 'p_kinds': (0.7, 0.05, 0.25, 0.0),
            'sched_preempt': [False], 'p_prio_preempt': 0.0, 'p_ps': 0.0, 'arr_scale': 0.7, 'p_renege': 0.35,
            'tm_weights': [0, 1, 1, 2], 'p_noleave': 0.05},
    'c07inf': {'n_nodes': [2, 2, 3, 3], 'p_qcap': 0.85, 'qcaps': [0, 0, 1, 1, 2], 'p_kinds': (0.4, 0.45, 0.15, 0.0), 'sched_preempt': [False], 'p_prio_preempt': 0.0,
               'p_ps': 0.5, 'p_ps_node': 0.5, 'arr_scale': 0.7, 'p_lattice': 0.6, 'p_batch': 0.6, 'tm_weights': [0, 1, 1, 2], 'p_noleave': 0.05},
    'c08': {'n_classes': [2, 3, 3], 'p_prio': 0.9, 'arr_scale': 0.6, 'p_qcap': 0.2, 'p_cct': 0.3,
            'disciplines': ['FIFO', 'FIFO', 'LIFO', 'LIFO', 'SIRO'], 'p_kinds': (0.6, 0.0, 0.25, 0.15)},
    'c08sched': {'n_classes': [2, 3], 'p_prio': 1.0, 'force_distinct_prio': True, 'p_prio_preempt': 1.0, 'prio_preempt_opts': ['resume', 'restart', 'resample'],
                 'p_kinds': (0.2, 0.0, 0.8, 0.0), 'sched_preempt': ['resume', 'restart', 'resample'], 'shift_servers': [0, 1, 1, 2], 'p_qcap': 0.0, 'p_qcap_sched': 0.0,
                 'p_syscap': 0.0, 'arr_scale': 0.6, 'p_ps': 0.0, 'p_cct': 0.3, 'disciplines': ['FIFO', 'FIFO', 'LIFO']},
    'c09': {'p_fpb_dup': 0.4, 'n_nodes': [2, 3, 3, 4], 'routing_kinds': ['tm', 'nr', 'nr', 'nr', 'pb', 'fpb', 'fpb'], 'p_ccm': 0.5,
            'node_routers': ['leave', 'direct', 'prob', 'jsq', 'jsq', 'lb', 'lb', 'cycle']},
    'linger': {'disciplines': ['LINGER:1.0', 'LINGER:0.4', 'SECOND', 'FIFO'], 'p_ps': 0.0, 'n_classes': [2, 2, 3], 'p_lattice': 0.3},
    'c10': {'p_split': 0.3, 'p_batch': 0.6, 'p_share_objects': 0.5, 'p_lattice': 0.55, 'run_methods': ['time', 'time', 'customers']},
    'c09jsq': {'n_nodes': [2, 3, 3, 4], 'n_classes': [2, 3], 'routing_kinds': ['nr', 'nr', 'fpb'], 'node_routers': ['jsq', 'jsq', 'lb', 'jsq', 'prob'],
               'p_prio': 1.0, 'force_distinct_prio': True, 'p_prio_preempt': 1.0, 'prio_preempt_opts': ['reroute', 'reroute', 'resume', False],
               'p_kinds': (0.8, 0.0, 0.2, 0.0), 'sched_preempt': [False, 'reroute'], 'arr_scale': 0.6, 'p_ps': 0.25, 'p_qcap': 0.1},
    'c09rr': {'n_nodes': [2, 3, 3], 'n_classes': [2, 3], 'routing_kinds': ['tm', 'tm', 'nr'], 'p_prio': 1.0, 'force_distinct_prio': True, 'p_prio_preempt': 1.0,
              'prio_preempt_opts': ['reroute', 'reroute', 'resume'], 'p_cct': 1.0, 'p_ccm': 0.3, 'p_kinds': (0.85, 0.0, 0.15, 0.0), 'sched_preempt': [False, 'reroute'],
              'arr_scale': 0.55, 'p_ps': 0.0, 'p_qcap': 0.1},
    # reroute pre-emption into nodes with small waiting rooms (often full) under probabilistic routing
    'c03rr': {'n_nodes': [2, 3, 3, 4], 'n_classes': [2, 3], 'routing_kinds': ['tm', 'tm', 'nr'], 'p_prio': 1.0, 'force_distinct_prio': True, 'p_prio_preempt': 1.0,
              'prio_preempt_opts': ['reroute', 'reroute', 'reroute', 'resume'], 'p_kinds': (0.85, 0.0, 0.15, 0.0), 'sched_preempt': [False, 'reroute'],
              'arr_scale': 0.5, 'p_ps': 0.0, 'p_qcap': 0.75, 'p_qcap_sched': 0.5, 'qcaps': [0, 1, 1, 2]},
    'c11': {'n_classes': [2, 3, 3], 'p_prio': 1.0, 'force_distinct_prio': True, 'p_prio_preempt': 1.0,
            'prio_preempt_opts': ['resume', 'restart', 'resample', 'reroute', 'resume', 'restart', 'resample'],
            'p_qcap': 0.0, 'p_qcap_sched': 0.0, 'p_syscap': 0.0, 'p_kinds': (1.0, 0.0, 0.0, 0.0), 'zero': False, 'p_ps': 0.0,
            'arr_scale': 0.55, 'srv_scale': 1.0, 'p_renege': 0.2, 'p_exact': 0.0},
    'c12': {'p_kinds': (0.1, 0.0, 0.55, 0.35), 'p_ps': 0.0, 'horizons': [30.0, 50.0], 'arr_scale': 0.7},
    'c13': {'p_renege': 0.9, 'p_baulk': 0.6, 'p_kinds': (0.65, 0.0, 0.35, 0.0), 'p_ps': 0.0, 'arr_scale': 0.6, 'ren_scale': 1.0},
    'c13inf': {'p_renege': 0.5, 'p_baulk': 1.0, 'p_kinds': (0.3, 0.5, 0.2, 0.0), 'p_ps': 0.5, 'p_ps_node': 0.6, 'arr_scale': 0.6, 'p_prio': 0.0},
    'c17': {'trackers': ['SystemPopulation', 'NodePopulation', 'NodePopulationSubset', 'GroupedNodePopulation',
                         'NodeClassMatrix', 'NodeClassMatrix', 'NaiveBlocking', 'NaiveBlocking', 'MatrixBlocking', 'MatrixBlocking'],
            'p_qcap': 0.6, 'p_ccm': 0.4, 'p_cct': 0.3, 'p_renege': 0.3, 'run_methods': ['time', 'time', 'customers']},
    'c17ncm': {'trackers': ['NodeClassMatrix'], 'n_classes': [2, 3], 'p_ccm': 1.0, 'p_cct': 0.8, 'p_qcap': 0.5, 'p_renege': 0.3, 'p_prio': 0.3,
               'p_kinds': (0.75, 0.05, 0.2, 0.0), 'p_ps': 0.0},
    'c02ps': {'p_ps': 1.0, 'p_ps_node': 0.6, 'p_qcap': 0.7, 'qcaps': [0, 0, 1, 2], 'n_nodes': [2, 3], 'arr_scale': 0.6, 'p_prio': 0.0},
    'c13lat': {'p_renege': 1.0, 'p_baulk': 0.3, 'p_kinds': (0.8, 0.0, 0.2, 0.0), 'p_ps': 0.0, 'p_lattice': 1.0, 'p_batch': 0.7, 'arr_scale': 0.7, 'ren_scale': 1.0,
               'disciplines': ['LIFO', 'SIRO', 'FIFO'], 'p_prio': 0.5, 'horizons': [30.0, 50.0]},
    'c14': {'p_again': 0.35, 'run_methods': ['time', 'time', 'customers'], 'horizons': [0.05, 0.5, 1.0, 5.0, 10.0, 20.0, 30.0, 50.0]},
    'c14lattice': {'p_again': 0.35, 'run_methods': ['time', 'time', 'customers'], 'p_lattice': 1.0, 'horizons': [0.5, 1.0, 2.0, 3.5, 5.0, 10.0, 20.0]},
    'c14wide': {'p_again': 0.35, 'run_methods': ['time', 'customers'], 'p_ps': 0.2, 'p_prio': 0.7, 'p_prio_preempt': 0.8, 'p_renege': 0.5, 'p_baulk': 0.4,
                'p_batch': 0.4, 'p_ccm': 0.5, 'p_cct': 0.5, 'p_syscap': 0.3, 'p_exact': 0.25, 'p_kinds': (0.35, 0.1, 0.35, 0.2)},
}


def _no(*flags):
    return lambda spec, f: not (set(flags) & f)


def scope_all(spec, f):
    return True


def scope_c06(spec, f):
    return not gen.has_reroute(spec)


def scope_c07(spec, f):
    return not ({'prio_preempt', 'sched_preempt', 'slot_preempt', 'srv_slotted'} & f)


def scope_c11(spec, f):
    return 'prio_preempt' in f


# property -> (list of (profile, weight), scope predicate, deciding counters (any > 0 makes a run non-trivial))
PLANS = {
    'C01': ([('generic', 4), ('lattice', 2), ('ring', 2), ('c11', 1), ('c12', 1), ('slotall', 1), ('infall', 1), ('c02ps', 1), ('linger', 1)], scope_all, ['kinds.accept']),
    'C02': ([('generic', 4), ('lattice', 2), ('c12', 2), ('c11', 1), ('ring', 1), ('c02ps', 1), ('exactall', 1), ('linger', 1)], scope_all, ['C02.records']),
    'C03': ([('generic', 4), ('ring', 2), ('c11', 2), ('c13', 1), ('c12', 1), ('linger', 1), ('c03rr', 2)], scope_all, ['C03.records']),
    'C04': ([('generic', 3), ('c04util', 4), ('ring', 2), ('c12', 1), ('linger', 1)], scope_all, ['C04.attaches']),
    'C05': ([('c05', 5), ('generic', 3), ('c12', 1), ('c13', 1)], scope_all, ['C05.snapshots_with_waiting']),
    'C06': ([('c06', 7), ('generic', 3)], scope_c06, ['C06.arrivals_when_full']),
    'C07': ([('c07', 6), ('c07inf', 3), ('ring', 2), ('generic', 2)], scope_c07, ['C07.blocks']),
    'C08': ([('c08', 5), ('c08sched', 2), ('generic', 3), ('c11', 1)], scope_all, ['C08.service_starts_with_choice', 'C08.slot_starts']),
    'C09': ([('c09', 5), ('c09jsq', 3), ('c09rr', 2), ('generic', 3)], scope_all, ['C09.routing_decisions']),
    'C10': ([('c10', 5), ('generic', 4), ('lattice', 1), ('exactlattice', 1), ('linger', 2)], scope_all, ['C10.services']),
    'C11': ([('c11', 9), ('generic', 1)], scope_c11, ['C11.preemptions']),
    'C12': ([('c12', 7), ('slotall', 1), ('generic', 2)], scope_all, ['C12.shift_changes', 'C12.slots']),
    'C13': ([('c13', 6), ('c13lat', 2), ('c13inf', 2), ('generic', 3)], scope_all, ['C13.renege_events', 'C13.baulk_decisions']),
    'C14': ([('c14', 3), ('c14lattice', 2), ('c14wide', 4), ('c12', 1), ('c11', 1), ('c13', 1), ('ring', 1), ('c09', 1), ('exactall', 1), ('c13lat', 1), ('linger', 1), ('c07inf', 2)], scope_all, ['C14.runs_completed']),
    'C17': ([('c17', 6), ('c17ncm', 2), ('generic', 2), ('ring', 1)], lambda spec, f: bool(spec.get('tracker')), ['C17.state_comparisons']),
}

BUDGET = {  # tier -> (runs, event cap, wall seconds per run, tie policies)
    'quick': (640, 8000, 30, ['native', 'native', 'native', 'first', 'random']),
    'thorough': (12000, 100000, 60, ['native', 'native', 'first', 'last', 'random', 'random']),
}


SOAK = 150   # thorough tier only: long runs (horizon 300-1000, light load) for drift that needs thousands of events per node


def plan(prop, tier, vseed):
    """Deterministic list of (profile name, seed, tie policy hint) jobs for a property / tier / VERIF_SEED."""
    profs, scope, deciding = PLANS[prop]
    runs, cap, wall, ties = BUDGET[tier]
    tot = sum(w for _, w in profs)
    jobs = []
    base = vseed * 1000003
    k = 0
    for name, w in profs:
        cnt = max(1, runs * w // tot)
        for j in range(cnt):
            jobs.append((name, base + k))
            k += 1
    if tier == 'thorough':
        for j in range(SOAK):
            jobs.append(('soak' if j % 3 else 'soaklattice', base + 900000 + j))
    return jobs


def make_spec(profile_name, seed, tier):
    prof = dict(PROFILES[profile_name])
    runs, cap, wall, ties = BUDGET[tier]
    prof.setdefault('tie_policies', ties)
    if tier == 'thorough':
        prof.setdefault('horizons', [10.0, 20.0, 30.0, 50.0, 100.0, 200.0])
        prof.setdefault('n_nodes', [1, 1, 2, 2, 3, 3, 4, 5, 6])
        prof.setdefault('n_classes', [1, 1, 2, 2, 3, 4])
    spec = gen.gen_spec(seed, prof)
    spec['profile'] = profile_name
    return spec


# properties whose oracles do not depend on where a stateful sampler / Cycle router starts (open finding K9): a share of their runs
# is made on a Network object that has already served another Simulation
REUSE_OK = {'C01', 'C02', 'C04', 'C05', 'C06', 'C07', 'C08'}
