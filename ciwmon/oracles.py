"""Property oracles: pure functions of (Trace, run context). They never touch the engine; capacities,
timetables, routing supports, priority maps, tracker states are recomputed from the spec and from list
contents recorded in snapshots, not from the engine's cached counters.

Each oracle appends (property, code, witness) to tr.viol via tr.v(...) and bumps tr.counters[...] with the
number of times its deciding monitor was evaluated.
"""
import math, collections, random
from decimal import Decimal

INF = float('inf')


def isnan(x):
    return isinstance(x, float) and x != x


def nk(spec, nid):
    nd = spec['nodes'][nid - 1]
    return nd['node_class'], nd['servers']['kind']


def ordinary_finite(spec, nid):
    c, k = nk(spec, nid)
    return c == 'Node' and k in ('int', 'schedule')


def close(a, b, tol=1e-9):
    a = float(a); b = float(b)
    return abs(a - b) <= tol * max(1.0, abs(a), abs(b))


def spec_cap(spec, nid, engine_cap=None):
    """Capacity of a node from the spec. int / PS: queue capacity + servers. Schedule / slotted nodes with a
    finite queue capacity: the engine's convention (queue capacity alone) is taken as given."""
    nd = spec['nodes'][nid - 1]
    q = nd['qcap']
    k = nd['servers']['kind']
    if q == 'inf' or k == 'inf':
        return INF
    if k == 'int':
        return q + nd['servers']['c']
    return q


def waiting_ids(nd):
    """customers holding no server, or sitting in the interrupted list"""
    return [i for i in nd['inds'] if i['server'] is None or i['id'] in nd['intr']]


def groups_of(tr):
    """events grouped per engine event: list of (EVENT tuple, [inner events])"""
    out = []
    cur = None
    for e in tr.events:
        if e[0] == 'EVENT':
            cur = (e, []); out.append(cur)
        elif cur is not None:
            cur[1].append(e)
    return out


# ---------------------------------------------------------------- C01 conservation
def c01(tr, cx):
    spec = cx['spec']
    loc = {}
    seen_exit = set()
    groups = groups_of(tr)
    created = 0
    prev_exit = 0
    for k, s in enumerate(tr.snaps):
        if k >= 1 and k - 1 < len(groups):
            for e in groups[k - 1][1]:
                if e[0] == 'accept':
                    if e[3] in seen_exit: tr.v('C01', 'reappeared_after_exit', e[:5])
                    loc[e[3]] = e[2]
                elif e[0] == 'exit':
                    if e[2] in seen_exit: tr.v('C01', 'exit_twice', e)
                    seen_exit.add(e[2]); loc[e[2]] = -1
                elif e[0] == 'arrival':
                    created += e[6] - e[5]
        tr.count('C01.snapshots')
        ids = []
        for nid, nd in s['nodes'].items():
            here = [i['id'] for i in nd['inds']]
            if here != nd['qids']: tr.v('C01', 'all_individuals_view_differs_from_queues', (k, s['t'], nid, here[:8], nd['qids'][:8]))
            if nd['n'] != len(here):
                tr.v('C01', 'count_mismatch', (k, s['t'], nid, nd['n'], len(here), s['evnode'], s['evtype']))
            for i in nd['inds']:
                if i['node'] != nid: tr.v('C01', 'ind_node_field', (k, nid, i['id'], i['node']))
            model = sorted(c for c, l in loc.items() if l == nid)
            if sorted(here) != model:
                tr.v('C01', 'location_differs_from_transfer_log', (k, s['t'], nid, sorted(here)[:8], model[:8], s['evnode'], s['evtype']))
            ids += here
        if s['n_exit'] != s['exit_n']: tr.v('C01', 'exit_count', (k, s['n_exit'], s['exit_n']))
        if s['n_exit'] < prev_exit: tr.v('C01', 'exit_shrunk', (k,))
        prev_exit = s['n_exit']
        if s['n_exit'] != len(seen_exit): tr.v('C01', 'exit_list_vs_exit_events', (k, s['n_exit'], len(seen_exit)))
        if len(ids) + s['n_exit'] != s['n_arr']:
            tr.v('C01', 'conservation', (k, s['t'], s['evnode'], s['evtype'], len(ids), s['n_exit'], s['n_arr']))
        if len(set(ids)) != len(ids): tr.v('C01', 'duplicate_in_nodes', (k, s['t']))
        if s['n_arr'] != created: tr.v('C01', 'created_counter_vs_arrival_events', (k, s['n_arr'], created))
        if set(ids) | seen_exit != set(range(1, s['n_arr'] + 1)):
            tr.v('C01', 'ids_not_1_to_N', (k, s['t'], len(ids), len(seen_exit), s['n_arr']))
        if tr.viol and len(tr.viol) > 20: break


# ---------------------------------------------------------------- C02 time
def c02(tr, cx):
    prev = None
    for e in tr.events:
        if e[0] == 'EVENT':
            _, t, nid, evtype, sched = e
            tr.count('C02.events')
            if t != sched: tr.v('C02', 'event_not_at_scheduled_date', e)
            if prev is not None and t < prev: tr.v('C02', 'clock_backwards', (prev, t, nid, evtype))
            prev = t
    for k, s in enumerate(tr.snaps[1:], 1):
        for nid, nd in s['nodes'].items():
            if nd['ned'] < s['t']:
                tr.v('C02', 'scheduled_in_past', (k, s['t'], nid, nd['ned'], nd['net'], s['evnode'], s['evtype']))
        if s['arr_ned'] < s['t']: tr.v('C02', 'arrival_scheduled_in_past', (k, s['t'], s['arr_ned']))
    # dates carried by customers still in the system: a started service ends at or after its start; once a customer has
    # finished service and is blocked, its end-of-service date lies in the past and no longer changes
    frozen = {}
    for k, s in enumerate(tr.snaps):
        seen = set()
        for nid, nd in s['nodes'].items():
            for i in nd['inds']:
                if i['ssd'] is not False and i['sed'] is not False and i['id'] not in nd['intr']:
                    tr.count('C02.in_service_dates')
                    if i['sed'] < i['ssd']: tr.v('C02', 'service_end_before_start_in_state', (k, s['t'], nid, i['id'], str(i['ssd']), str(i['sed'])))
                if i['blocked'] and i['sed'] is not False:
                    key = (nid, i['id'], i['arr']); seen.add(key)
                    if i['sed'] > s['t']: tr.v('C02', 'blocked_before_end_of_service', (k, s['t'], nid, i['id'], str(i['sed'])))
                    if key in frozen and frozen[key] != i['sed']:
                        tr.v('C02', 'blocked_customer_end_date_changed', (k, s['t'], nid, i['id'], str(frozen[key]), str(i['sed'])))
                    frozen.setdefault(key, i['sed'])
        for key in [x for x in frozen if x not in seen]: del frozen[key]
    tend = max([s['t'] for s in tr.snaps])
    for cid, r in cx['records']:
        rt = r.record_type
        tr.count('C02.records')
        if rt == 'service':
            if not (r.arrival_date <= r.service_start_date <= r.service_end_date <= r.exit_date <= tend):
                tr.v('C02', 'service_record_order', tuple(r))
            elif r.waiting_time != r.service_start_date - r.arrival_date or r.service_time != r.service_end_date - r.service_start_date \
                    or r.time_blocked != r.exit_date - r.service_end_date:
                tr.v('C02', 'service_record_arith', tuple(r))
            elif not (r.waiting_time >= 0 and r.service_time >= 0 and r.time_blocked >= 0):
                tr.v('C02', 'service_record_negative', tuple(r))
        elif rt == 'interrupted service':
            if not (r.arrival_date <= r.service_start_date <= r.exit_date <= tend): tr.v('C02', 'interrupted_record_order', tuple(r))
            elif r.waiting_time != r.service_start_date - r.arrival_date or not (r.service_time >= 0): tr.v('C02', 'interrupted_record_arith', tuple(r))
            elif not (isnan(r.service_end_date) and isnan(r.time_blocked)): tr.v('C02', 'interrupted_record_nan_fields', tuple(r))
        elif rt == 'renege':
            if not (r.arrival_date <= r.exit_date <= tend) or r.waiting_time != r.exit_date - r.arrival_date: tr.v('C02', 'renege_record', tuple(r))
            elif not (isnan(r.service_start_date) and isnan(r.service_time) and isnan(r.service_end_date)): tr.v('C02', 'renege_record_nan_fields', tuple(r))
        else:
            if r.arrival_date != r.exit_date or not (r.exit_date <= tend): tr.v('C02', 'baulk_rej_record', tuple(r))
            elif not (isnan(r.waiting_time) and isnan(r.service_start_date)): tr.v('C02', 'baulk_rej_nan_fields', tuple(r))


# ---------------------------------------------------------------- C03 journeys
def c03(tr, cx):
    if not cx['final_ok']: return
    spec = cx['spec']
    jock = {}
    for e in tr.events:
        if e[0] == 'jockey': jock[(e[3], e[1], e[2])] = e[4]
    nrel = collections.Counter(e[3] for e in tr.events if e[0] == 'release' and not e[5])
    for cid, (loc, recs, start) in cx['where'].items():
        tr.count('C03.customers')
        cur, curt = start, None
        n_service = 0
        terminal = False
        for k, r in enumerate(recs):
            tr.count('C03.records')
            if terminal: tr.v('C03', 'record_after_terminal', (cid, k)); break
            if r.id_number != cid: tr.v('C03', 'foreign_record', (cid, tuple(r)))
            if r.node != cur: tr.v('C03', 'record_at_wrong_node', (cid, k, r.node, cur, [(x.node, x.record_type, x.destination) for x in recs][:8]))
            if curt is not None and r.arrival_date != curt: tr.v('C03', 'gap_in_time', (cid, k, r.arrival_date, curt, r.record_type))
            if r.record_type in ('baulk', 'rejection'):
                terminal = True
                if len(recs) != 1: tr.v('C03', 'baulk_rej_not_only_record', (cid, len(recs)))
                cur = -1; curt = r.exit_date
            elif r.record_type == 'service':
                n_service += 1
                cur = r.destination; curt = r.exit_date
                if cur == -1: terminal = True
            elif r.record_type == 'renege':
                d = jock.get((cid, r.exit_date, r.node))
                if d is None: tr.v('C03', 'renege_without_jockey_decision', (cid, r.node, r.exit_date))
                cur = d if d is not None else -1
                curt = r.exit_date
                if cur == -1: terminal = True
                if r.destination != cur: tr.v('C03', 'renege_record_destination_field', (cid, r.destination, cur))
            elif r.record_type == 'interrupted service':
                if isnan(r.destination): curt = r.arrival_date
                else:
                    cur = r.destination; curt = r.exit_date
                    if cur == -1: terminal = True
        if loc != cur: tr.v('C03', 'final_location_mismatch', (cid, loc, cur, [(x.node, x.record_type, x.destination) for x in recs][:8]))
        if (loc == -1) != terminal: tr.v('C03', 'exit_iff_terminal', (cid, loc, terminal))
        if nrel[cid] != n_service: tr.v('C03', 'service_records_vs_completed_visits', (cid, nrel[cid], n_service))


def hook_audit(tr, cx):
    """Is the attach / detach log complete? After every event the server -> customer relation implied by the hooks must equal
    the one seen in the snapshot (for servers still present). If a code path attaches or detaches without going through the
    hooked methods, hook-based clauses cannot be judged: they are skipped and the run is reported as inconclusive for them
    (never as a violation: the property may well hold on refactored code)."""
    if 'hook_audit' in cx: return cx['hook_audit']
    spec = cx['spec']
    held = {}
    ok = True
    groups = groups_of(tr)
    for k, s in enumerate(tr.snaps):
        if k >= 1 and k - 1 < len(groups):
            for e in groups[k - 1][1]:
                if e[0] == 'attach': held[(e[2], e[4])] = e[3]
                elif e[0] == 'detach': held[(e[2], e[4])] = None
        for nid, nd in s['nodes'].items():
            if not ordinary_finite(spec, nid): continue
            for sv in nd['servers']:
                if held.get((nid, sv['id'])) != sv['cust']:
                    ok = False; cx['hook_audit_witness'] = (k, s['t'], nid, sv['id'], held.get((nid, sv['id'])), sv['cust'])
                    break
            if not ok: break
        if not ok: break
    cx['hook_audit'] = ok
    if not ok: tr.count('hook_log_incomplete')
    return ok


# ---------------------------------------------------------------- C04 servers
def c04(tr, cx):
    spec = cx['spec']
    for k, s in enumerate(tr.snaps):
        for nid, nd in s['nodes'].items():
            if not ordinary_finite(spec, nid): continue
            tr.count('C04.node_snapshots')
            kind = nk(spec, nid)[1]
            servers = nd['servers']
            sid_cust = {}
            for sv in servers:
                if sv['busy'] != (sv['cust'] is not None): tr.v('C04', 'busy_flag_vs_cust', (k, nid, sv))
                if sv['cust'] is not None: sid_cust[sv['id']] = sv['cust']
            if len(set(sv['id'] for sv in servers)) != len(servers): tr.v('C04', 'duplicate_server_id', (k, nid))
            ind_srv = {i['id']: i['server'] for i in nd['inds'] if i['server'] is not None and i['id'] not in nd['intr']}
            if sorted(sid_cust.values()) != sorted(ind_srv.keys()) or any(sid_cust.get(sv) != cid for cid, sv in ind_srv.items()):
                tr.v('C04', 'attachment_not_bijective', (k, s['t'], nid, sid_cust, ind_srv, s['evnode'], s['evtype']))
            if kind == 'int':
                c = spec['nodes'][nid - 1]['servers']['c']
                if len(servers) != c or any(sv['off'] for sv in servers):
                    tr.v('C04', 'server_count', (k, nid, len(servers)))
                if len(ind_srv) > c: tr.v('C04', 'more_in_service_than_servers', (k, nid, len(ind_srv), c))
            else:
                if len(ind_srv) > len(servers): tr.v('C04', 'more_in_service_than_servers', (k, nid, len(ind_srv), len(servers)))
                # customers in service on on-duty servers never exceed what the declared timetable puts on duty at that time
                sv_ = spec['nodes'][nid - 1]['servers']
                before, after, isb = timetable(sv_, float(s['t']))
                on_busy = sum(1 for x in servers if x['busy'] and not x['off'])
                if on_busy > max(before, after): tr.v('C04', 'more_in_service_than_scheduled_servers', (k, s['t'], nid, on_busy, before, after))
    # a server stays with its customer until that customer leaves (or is pre-empted / interrupted)
    held = {}
    for e in (tr.events if hook_audit(tr, cx) else []):
        if e[0] == 'attach':
            key = (e[2], e[4])
            tr.count('C04.attaches')
            if key in held and held[key] is not None and held[key] != e[3]:
                # legitimate only if the previous holder was interrupted by a shift end (server dismissed / pointer stale)
                if not cx['sched_interrupted'].get((e[2], held[key])):
                    tr.v('C04', 'server_reassigned_without_detach', (e[1], e[2], e[4], held[key], e[3]))
            held[key] = e[3]
        elif e[0] == 'detach':
            key = (e[2], e[4])
            if held.get(key) != e[3]: tr.v('C04', 'detach_of_non_holder', (e[1], e[2], e[4], held.get(key), e[3]))
            ctx = e[6]
            if ctx is None or ctx[0] not in ('release', 'preempt') or ctx[2] != e[3]:
                tr.v('C04', 'detach_outside_release_or_preemption', (e[1], e[2], e[3], ctx))
            held[key] = None
        elif e[0] == 'interrupt':
            cx['sched_interrupted'][(e[2], e[3])] = True
    by = collections.defaultdict(list)
    for cid, r in cx['records']:
        if r.record_type not in ('service', 'interrupted service'): continue
        if r.server_id is False or isnan(r.server_id): continue
        by[(r.node, r.server_id)].append((r.service_start_date, r.exit_date, r.id_number, r.record_type))
    if cx['final_ok']:
        for (nid, sid, cid, ssd) in cx['inprogress']:
            by[(nid, sid)].append((ssd, INF, cid, 'inprogress'))
    for key, ivs in by.items():
        ivs.sort(key=lambda x: (x[0], x[1]))
        tr.count('C04.server_intervals', len(ivs))
        for a, b in zip(ivs, ivs[1:]):
            if b[0] < a[1]: tr.v('C04', 'server_intervals_overlap', (key, a, b))
    # utilisation (runs without any pre-emption option, full run to a time horizon)
    f = cx['features']
    if cx['final_ok'] and hook_audit(tr, cx) and spec['run']['method'] == 'time' and not ({'prio_preempt', 'sched_preempt', 'slot_preempt'} & f):
        T = spec['run']['T']
        for nid, util, c_now in cx['utilisation']:
            if not ordinary_finite(spec, nid): continue
            kind = nk(spec, nid)[1]
            att = 0.0; open_ = {}
            for e in tr.events:
                if e[0] == 'attach' and e[2] == nid: open_[e[4]] = e[1]
                elif e[0] == 'detach' and e[2] == nid:
                    att += float(e[1]) - float(open_.pop(e[4], e[1]))
            for sid, t0 in open_.items(): att += T - float(t0)
            if kind == 'int':
                c = spec['nodes'][nid - 1]['servers']['c']
                if c == 0:
                    if util is not None: tr.v('C04', 'util_zero_servers', util)
                    continue
                tot = c * T
            else:
                tot = 0.0
                for a, b in zip(tr.snaps, tr.snaps[1:]):
                    tot += len(a['nodes'][nid]['servers']) * (float(b['t']) - float(a['t']))
                tot += len(tr.snaps[-1]['nodes'][nid]['servers']) * (T - float(tr.snaps[-1]['t']))
            if tot == 0 or util is None: continue
            tr.count('C04.utilisations')
            if not (0 <= util <= 1 + 1e-9) or not close(util, att / tot, 1e-7):
                tr.v('C04', 'utilisation', (nid, kind, float(util), att / tot))


# ---------------------------------------------------------------- C05 work conservation
def c05(tr, cx):
    spec = cx['spec']
    for k, s in enumerate(tr.snaps):
        for nid, nd in s['nodes'].items():
            if not ordinary_finite(spec, nid): continue
            waiting = waiting_ids(nd)
            if waiting: tr.count('C05.snapshots_with_waiting')
            free = [sv for sv in nd['servers'] if not sv['busy'] and not sv['off']]
            if waiting and free:
                tr.v('C05', 'idle_server_while_waiting', (k, s['t'], nid, [i['id'] for i in waiting][:6], [sv['id'] for sv in free], s['evnode'], s['evtype']))
    for e in tr.events:
        if e[0] == 'accept' and ordinary_finite(spec, e[2]):
            idle, nwait, started = e[8], e[9], e[7]
            if idle and nwait == 0:
                tr.count('C05.arrivals_to_idle_server')
                if not started: tr.v('C05', 'arrival_to_idle_server_did_not_start', e[:10])
    # waiting periods in records: during (arrival, service start) the customer is seen waiting at that node in every
    # snapshot (so the snapshot invariant above covers the whole recorded waiting period with full occupancy)
    intr_visits = set((cid, r.node, r.arrival_date) for cid, r in cx['records'] if r.record_type == 'interrupted service')
    by = collections.defaultdict(list)
    for cid, r in cx['records']:
        if r.record_type == 'service' and ordinary_finite(spec, r.node) and r.waiting_time > 0 and (cid, r.node, r.arrival_date) not in intr_visits:
            by[r.node].append((r.arrival_date, r.service_start_date, cid))
    if by:
        for k, s in enumerate(tr.snaps):
            for nid, ivs in by.items():
                nd = s['nodes'][nid]
                here = {i['id']: i for i in nd['inds']}
                for a, b, cid in ivs:
                    if a < s['t'] < b:
                        tr.count('C05.waiting_record_snapshots')
                        i = here.get(cid)
                        if i is None or i['arr'] != a: tr.v('C05', 'recorded_waiting_but_absent', (k, s['t'], nid, cid, a, b))
                        elif i['server'] is not None: tr.v('C05', 'recorded_waiting_but_in_service', (k, s['t'], nid, cid, a, b))


# ---------------------------------------------------------------- C06 capacity
def c06(tr, cx):
    spec = cx['spec']
    from .gen import has_reroute
    rr = has_reroute(spec)
    for k, s in enumerate(tr.snaps):
        tot = 0
        for nid, nd in s['nodes'].items():
            tot += len(nd['inds'])
            ncls, kind = nk(spec, nid)
            q = spec['nodes'][nid - 1]['qcap']
            if q == 'inf' or kind == 'inf': continue
            sv = spec['nodes'][nid - 1]['servers']
            cap = q + (sv['c'] if kind == 'int' else max(sv['nums']) if kind == 'schedule' else max(sv['sizes']))
            tr.count('C06.capacity_checks')
            k29 = cx.get('soft', {}).get('K29', {})
            if nid in k29 and not (s['t'] < k29[nid]):
                tr.count('C06.K29_exempt_checks'); continue    # open finding: jockeying ignores the capacity of its target
            if len(nd['inds']) > cap and not rr:
                tr.v('C06', 'node_capacity_exceeded', (k, s['t'], nid, len(nd['inds']), cap, kind, s['evnode'], s['evtype']))
        if spec['syscap']:
            tr.count('C06.capacity_checks')
            if tot > spec['syscap']: tr.v('C06', 'system_capacity_exceeded', (k, s['t'], tot, spec['syscap']))
    rej = {cid: r for cid, r in cx['records'] if r.record_type == 'rejection'}
    blk = {cid for cid, r in cx['records'] if r.record_type == 'baulk'}
    groups = groups_of(tr)
    for gi, (E, inner) in enumerate(groups):
        if E[3] != 'arrival': continue
        if cx['t_cut'] is not None: pass
        exits = {e[2] for e in inner if e[0] == 'exit'}
        accepts = {(e[3], e[2]) for e in inner if e[0] == 'accept'}
        for e in inner:
            if e[0] != 'arrive_try': continue
            _, t, nid, cid, ncounter, ncap_impl, true_tot, true_pop = e
            ncls, kind = nk(spec, nid)
            q = spec['nodes'][nid - 1]['qcap']
            if q == 'inf' or kind == 'inf': cap = INF
            elif kind == 'int': cap = q + spec['nodes'][nid - 1]['servers']['c']
            else: continue
            tr.count('C06.arrival_attempts')
            full = true_pop >= cap or (spec['syscap'] is not None and true_tot >= spec['syscap'])
            was_rej = cid in rej
            if full: tr.count('C06.arrivals_when_full')
            if full != was_rej: tr.v('C06', 'rejection_iff_full', (t, nid, cid, true_pop, cap, true_tot, spec['syscap'], was_rej))
            if was_rej:
                if rej[cid].queue_size_at_arrival != true_pop: tr.v('C06', 'rejection_record_population', (cid, rej[cid].queue_size_at_arrival, true_pop))
                if cid not in exits: tr.v('C06', 'rejected_not_sent_to_exit', (t, cid))
                if (cid, nid) in accepts: tr.v('C06', 'rejected_but_accepted', (t, cid))
                if len(cx['where'].get(cid, (None, [None], None))[1]) != 1 and cx['final_ok']: tr.v('C06', 'rejected_has_other_records', (cid,))
            else:
                if not ((cid, nid) in accepts or cid in blk): tr.v('C06', 'admitted_but_not_in_node', (t, nid, cid))


# ---------------------------------------------------------------- C07 blocking
def c07(tr, cx):
    spec = cx['spec']
    for e in tr.events:
        if e[0] == 'block':
            _, t, nid, cid, dest, dcounter, dcap, dtrue = e
            tr.count('C07.blocks')
            if dtrue < spec_cap(spec, dest): tr.v('C07', 'blocked_though_space', e)
        if e[0] == 'release' and not e[5] and not e[6] and e[4] != -1:
            tr.count('C07.direct_moves')
            if e[9] >= spec_cap(spec, e[4]): tr.v('C07', 'released_into_full_node', e)
    for k, s in enumerate(tr.snaps):
        for nid, nd in s['nodes'].items():
            for i in nd['inds']:
                if i['blocked']:
                    tr.count('C07.blocked_customer_snapshots')
                    d = i['dest']
                    if d in s['nodes']:
                        dn = s['nodes'][d]
                        if len(dn['inds']) < spec_cap(spec, d):
                            tr.v('C07', 'left_blocked_though_space', (k, s['t'], nid, i['id'], d, len(dn['inds']), spec_cap(spec, d), s['evnode'], s['evtype']))
                    else:
                        tr.v('C07', 'blocked_without_destination', (k, nid, i['id'], d))
                    if ordinary_finite(spec, nid) and (i['server'] is None):
                        tr.v('C07', 'blocked_without_server', (k, s['t'], nid, i['id']))
    blocked_order = collections.defaultdict(list)
    block_time = {}
    finishes = collections.Counter()
    for e in tr.events:
        if e[0] == 'block':
            blocked_order[e[4]].append(e[3]); block_time[(e[3], e[2])] = e[1]
        elif e[0] == 'release' and e[6] and not e[5]:
            d = e[4]; cid = e[3]
            tr.count('C07.unblocks')
            if not blocked_order[d] or blocked_order[d][0] != cid:
                tr.v('C07', 'unblock_not_fifo', (e[:7], list(blocked_order[d])[:6]))
                if cid in blocked_order[d]: blocked_order[d].remove(cid)
            else: blocked_order[d].pop(0)
    # time_blocked accounting
    blocks = collections.defaultdict(list)
    for e in tr.events:
        if e[0] == 'block': blocks[(e[3], e[2])].append(e[1])
    for cid, r in cx['records']:
        if r.record_type != 'service': continue
        bl = [t for t in blocks.get((cid, r.node), []) if t == r.service_end_date]
        if r.time_blocked > 0 and not bl: tr.v('C07', 'time_blocked_without_block', tuple(r))
        if bl:
            tr.count('C07.blocked_records')
            if r.time_blocked != r.exit_date - bl[0]: tr.v('C07', 'time_blocked_not_block_duration', (tuple(r), bl[0]))
    # nobody finishes service twice in one visit
    visit = collections.Counter()
    fin = collections.Counter()
    for E, inner in groups_of(tr):
        if E[3] == 'end_service':
            routes = [e for e in inner if e[0] == 'route' and e[2] == E[2]]
            if routes:
                cid = routes[0][3]
                key = (cid, E[2], visit[(cid, E[2])])
                fin[key] += 1
                if fin[key] > 1: tr.v('C07', 'finished_service_twice', (E[1], E[2], cid))
        for e in inner:
            if e[0] == 'accept': visit[(e[3], e[2])] += 1


# ---------------------------------------------------------------- C08 service order
def c08(tr, cx):
    spec = cx['spec']
    hooks_ok = hook_audit(tr, cx)
    joined = {}   # (nid, cid) -> sequence number of joining its current priority queue
    seq = 0
    for e in tr.events:
        if e[0] == 'join':
            seq += 1; joined[(e[2], e[3])] = seq
        elif e[0] == 'classchange_wait':
            pm = spec['priorities']
            if pm and pm[e[4]] != pm[e[5]]:   # re-queued at the tail of the new priority class
                seq += 1; joined[(e[2], e[3])] = seq
        if e[0] != 'attach' or not hooks_ok: continue
        _, t, nid, cid, sid, prio, arr, intr, waiting, inserv, off, insrv, nintr, order, hadserver, ctx = e[:16]
        if intr: continue
        disc = spec['nodes'][nid - 1]['discipline']
        tr.count('C08.service_starts')
        if [w for w in waiting if not w[3]]: tr.count('C08.service_starts_with_choice')
        for (wid, wp, warr, wintr) in waiting:
            if wintr: continue
            if wp < prio: tr.v('C08', 'higher_priority_waiting', (t, nid, cid, prio, wid, wp))
            elif wp == prio:
                if disc == 'FIFO' and order.get(wid, 1e18) < order.get(cid, -1): tr.v('C08', 'fifo_overtaken', (t, nid, cid, wid))
                if disc == 'LIFO' and order.get(wid, -1) > order.get(cid, 1e18): tr.v('C08', 'lifo_violated', (t, nid, cid, wid))
                # the engine's list order must itself be the order of joining the queue
                jw, jc = joined.get((nid, wid)), joined.get((nid, cid))
                if jw is not None and jc is not None and wid in order and cid in order:
                    if (jw < jc) != (order[wid] < order[cid]): tr.v('C08', 'queue_order_not_join_order', (t, nid, cid, wid))
        if hadserver: tr.v('C08', 'attach_to_already_served', e[:5])
    # structural invariant behind FIFO / LIFO: within a priority class the node's list is in order of joining that queue
    joined = {}; seq = 0
    groups = groups_of(tr)
    for k, s in enumerate(tr.snaps):
        if k >= 1 and k - 1 < len(groups):
            for e in groups[k - 1][1]:
                if e[0] == 'join':
                    seq += 1; joined[(e[2], e[3])] = seq
                elif e[0] == 'classchange_wait':
                    pm = spec['priorities']
                    if pm and pm[e[4]] != pm[e[5]]:
                        seq += 1; joined[(e[2], e[3])] = seq
        for nid, nd in s['nodes'].items():
            if nk(spec, nid)[0] != 'Node': continue
            last = {}
            for i in nd['inds']:
                j = joined.get((nid, i['id']))
                if j is None: continue
                tr.count('C08.queue_positions_checked')
                pl = i.get('plist')     # the engine's priority list the customer sits in
                if pl is None: pl = i['prio']
                if pl in last and last[pl][0] > j:
                    tr.v('C08', 'queue_not_in_join_order', (k, s['t'], nid, last[pl][1], i['id'], s['evnode'], s['evtype']))
                    break
                last[pl] = (j, i['id'])
    # slotted nodes: the customers started at a slot respect priority + discipline w.r.t. those left waiting
    for k in range(1, len(tr.snaps)):
        s = tr.snaps[k]
        if s['evtype'] != 'slotted_service': continue
        nid = s['evnode']
        if nk(spec, nid) != ('Node', 'slotted'): continue
        a, b = tr.snaps[k - 1]['nodes'][nid], s['nodes'][nid]
        before = {i['id']: i for i in a['inds']}
        started = [i for i in b['inds'] if i['ssd'] is not False and i['id'] in before and before[i['id']]['ssd'] is False and i['id'] not in a['intr']]
        left = [i for i in b['inds'] if i['ssd'] is False and i['id'] not in b['intr']]
        if started: tr.count('C08.slot_starts', len(started))
        pos = {i['id']: n for n, i in enumerate(a['inds'])}
        disc = spec['nodes'][nid - 1]['discipline']
        for x in started:
            for w in left:
                if w['prio'] < x['prio']: tr.v('C08', 'slot_higher_priority_waiting', (s['t'], nid, x['id'], w['id']))
                elif w['prio'] == x['prio'] and w['id'] in pos:
                    if disc == 'FIFO' and pos[w['id']] < pos[x['id']]: tr.v('C08', 'slot_fifo_overtaken', (s['t'], nid, x['id'], w['id']))
                    if disc == 'LIFO' and pos[w['id']] > pos[x['id']]: tr.v('C08', 'slot_lifo_violated', (s['t'], nid, x['id'], w['id']))


# ---------------------------------------------------------------- C09 routing
def c09(tr, cx):
    spec = cx['spec']
    n = spec['n']
    cyc = collections.defaultdict(list)
    rl = tr.logs.rlog
    pos = collections.Counter()
    remaining = {}
    if spec['priorities']:
        for k, s in enumerate(tr.snaps):
            for nid, nd in s['nodes'].items():
                for i in nd['inds']:
                    tr.count('C09.priority_checks')
                    if spec['priorities'][i['cls']] != i['prio']:
                        tr.v('C09', 'priority_not_matching_class', (k, nid, i['id'], i['cls'], i['prio']))
    for e in tr.events:
        if e[0] == 'classchange_wait':
            tr.count('C09.class_changes_while_waiting')
            cct = spec.get('cct') or {}
            if not (cct.get(e[4]) or {}).get(e[5]):
                tr.v('C09', 'class_change_while_waiting_not_declared', (e[1], e[2], e[3], e[4], e[5]))
            if not e[6] or e[7]: tr.v('C09', 'class_change_of_absent_or_served_customer', e[:8])
        if e[0] not in ('route', 'reroute_to'): continue
        if e[0] == 'reroute_to':
            _, t, nid, cid, dest, cls, route_before = e
            truth = None; prevcls = cls; pops = None
        else:
            _, t, nid, cid, cls, dest, pops, route_before, prevcls, truth = e
            if spec['ccm']:
                tr.count('C09.class_changes_judged')
                p = spec['ccm'][nid - 1][prevcls][cls]
                if p == 0.0: tr.v('C09', 'forbidden_class_change', (t, nid, cid, prevcls, cls))
            elif prevcls != cls:
                tr.v('C09', 'class_changed_without_matrix', (t, nid, cid, prevcls, cls))
        tr.count('C09.routing_decisions')
        r = spec['routing'][cls]
        if dest != -1 and not (1 <= dest <= n): tr.v('C09', 'destination_not_a_node', (t, nid, cid, dest)); continue
        if r['r'] == 'tm':
            row = r['M'][nid - 1]
            if dest == -1:
                if 1 - sum(row) <= 0: tr.v('C09', 'left_with_zero_prob', (t, nid, cid))
            elif row[dest - 1] == 0.0: tr.v('C09', 'zero_prob_transition', (t, nid, cid, dest))
        elif r['r'] == 'nr':
            q = r['routers'][nid - 1]
            if q['k'] in ('leave', 'jockey') and dest != -1: tr.v('C09', 'leave_not_exit', (t, nid, dest))
            if q['k'] == 'direct' and dest != q['to']: tr.v('C09', 'direct_wrong', (t, nid, dest, q['to']))
            if q['k'] == 'prob':
                if dest == -1:
                    if 1 - sum(q['probs']) <= 0: tr.v('C09', 'left_with_zero_prob', (t, nid, cid))
                elif dest not in q['dests'] or q['probs'][q['dests'].index(dest)] == 0.0: tr.v('C09', 'zero_prob_transition', (t, nid, cid, dest))
            if q['k'] == 'cycle': cyc[(cls, nid)].append(dest)
            if q['k'] in ('jsq', 'lb'):
                if dest not in q['dests']: tr.v('C09', 'jsq_dest_not_listed', (t, nid, dest))
                elif truth is not None:
                    tr.count('C09.jsq_lb_decisions')
                    idx = 0 if q['k'] == 'lb' else 1
                    val = {d: truth[d][idx] for d in q['dests']}
                    m = min(val.values())
                    if val[dest] != m: tr.v('C09', q['k'] + '_not_minimal', (t, nid, cid, dest, val, {d: pops[d] for d in q['dests']}))
                    elif q['tie'] == 'order' and dest != [d for d in q['dests'] if val[d] == m][0]: tr.v('C09', q['k'] + '_tie_order', (t, nid, dest, val))
        elif r['r'] == 'pb':
            rt = rl.get(cid)
            if rt is None: tr.v('C09', 'pb_no_route_logged', (cid,)); continue
            exp = rt[pos[cid]] if pos[cid] < len(rt) else -1
            pos[cid] += 1
            tr.count('C09.process_based_decisions')
            if dest != exp: tr.v('C09', 'pb_route_not_followed', (t, nid, cid, dest, exp, rt))
        elif r['r'] == 'fpb':
            if cid not in remaining:
                if cid not in rl: tr.v('C09', 'fpb_no_route_logged', (cid,)); continue
                remaining[cid] = [list(x) for x in rl[cid]]
            rem = remaining[cid]
            tr.count('C09.process_based_decisions')
            if not rem:
                if dest != -1: tr.v('C09', 'fpb_not_exit_after_route', (t, cid, dest))
                continue
            if dest not in rem[0]: tr.v('C09', 'fpb_dest_not_in_set', (t, nid, cid, dest, rem[0])); continue
            if truth is not None and r['choice'] in ('jsq', 'lb'):
                idx = 0 if r['choice'] == 'lb' else 1
                val = {d: truth[d][idx] for d in rem[0]}
                if val[dest] != min(val.values()): tr.v('C09', 'fpb_' + r['choice'] + '_not_minimal', (t, nid, cid, dest, val))
            if r['rule'] == 'any': rem.pop(0)
            else:
                rem[0].remove(dest)
                if not rem[0]: rem.pop(0)
    # frequencies: with enough decisions of one probabilistic router (or class-change row) the observed counts stay within 6 sigma
    # of n*p for every destination (the statement forbids zero-probability moves; a grossly mis-weighted choice is the same defect)
    def freq_test(label, counts, probs):
        n_ = sum(counts.values())
        if n_ < 60: return
        tr.count('C09.frequency_tests')
        for k_, p_ in probs.items():
            if p_ <= 0 or p_ >= 1: continue
            z = (counts.get(k_, 0) - n_ * p_) / (n_ * p_ * (1 - p_)) ** 0.5
            if abs(z) > 6.0:
                tr.v('C09', 'choice_frequency_far_from_probability', (label, k_, counts.get(k_, 0), n_, p_, round(z, 1))); return
    rc = collections.defaultdict(collections.Counter); cc = collections.defaultdict(collections.Counter)
    for e in tr.events:
        if e[0] == 'route':
            rc[(e[4], e[2])][e[5]] += 1
            if spec['ccm']: cc[(e[2], e[8])][e[4]] += 1
    def aggregate(counts, ordered):
        # sums that the check merges over all runs: per position j in the router's own list, sum(indicator - p) and sum p(1-p)
        n_ = sum(counts.values())
        for j, (k_, p_) in enumerate(ordered[:6]):
            if p_ <= 0 or p_ >= 1: continue
            tr.counters['C09.agg.S%d' % j] = tr.counters.get('C09.agg.S%d' % j, 0.0) + counts.get(k_, 0) - n_ * p_
            tr.counters['C09.agg.V%d' % j] = tr.counters.get('C09.agg.V%d' % j, 0.0) + n_ * p_ * (1 - p_)
    for (cls, nid), counts in rc.items():
        r = spec['routing'][cls]
        if r['r'] == 'tm':
            row = r['M'][nid - 1]; probs = {j + 1: row[j] for j in range(n)}; probs[-1] = 1 - sum(row)
            freq_test(('tm', cls, nid), counts, probs)
            aggregate(counts, [(j + 1, row[j]) for j in range(n)] + [(-1, 1 - sum(row))])
        elif r['r'] == 'nr' and r['routers'][nid - 1]['k'] == 'prob':
            q = r['routers'][nid - 1]; probs = dict(zip(q['dests'], q['probs'])); probs[-1] = 1 - sum(q['probs'])
            freq_test(('prob', cls, nid), counts, probs)
            aggregate(counts, list(zip(q['dests'], q['probs'])) + [(-1, 1 - sum(q['probs']))])
    if spec['ccm']:
        for (nid, prev), counts in cc.items():
            freq_test(('class_change', nid, prev), counts, dict(spec['ccm'][nid - 1][prev]))
            n_ = sum(counts.values())
            for j, c_ in enumerate(sorted(spec['classes'])[:3]):
                p_ = spec['ccm'][nid - 1][prev][c_]
                if 0 < p_ < 1:
                    tr.counters['C09.agg.CS%d' % j] = tr.counters.get('C09.agg.CS%d' % j, 0.0) + counts.get(c_, 0) - n_ * p_
                    tr.counters['C09.agg.CV%d' % j] = tr.counters.get('C09.agg.CV%d' % j, 0.0) + n_ * p_ * (1 - p_)
    for (cls, nid), seq in cyc.items():
        cy = spec['routing'][cls]['routers'][nid - 1]['cycle']
        L = len(cy)
        tr.count('C09.cycle_decisions', len(seq))
        ok = any(all(seq[j] == cy[(o + j) % L] for j in range(len(seq))) for o in range(L))
        if not ok: tr.v('C09', 'cycle_order', (cls, nid, seq[:10], cy))
    # every move a customer makes is the one decided: release destination == last routing decision of that customer
    last_dec = {}
    for e in tr.events:
        if e[0] == 'route': last_dec[e[3]] = e[5]
        elif e[0] == 'reroute_to': last_dec[e[3]] = e[4]
        elif e[0] == 'release':
            tr.count('C09.moves')
            if last_dec.get(e[3]) != e[4]: tr.v('C09', 'moved_to_other_than_decided', (e[1], e[2], e[3], e[4], last_dec.get(e[3])))


# ---------------------------------------------------------------- C10 samples
def c10(tr, cx):
    spec = cx['spec']
    slog = tr.logs.slog
    exact = bool(spec['exact'])
    crashed = not cx['final_ok']
    by = collections.defaultdict(list)
    for (stream, t, ind, v) in slog:
        if stream[0] == 'arr': by[(stream[1], stream[2])].append(v)
    arrs = collections.defaultdict(list)
    for e in tr.events:
        if e[0] == 'arrival': arrs[(e[2], e[3])].append((e[4], e[5], e[6], e[1]))
    for key, evs in arrs.items():
        samples = by.get(key, [])
        acc = None
        for k, (date, pre, post, t) in enumerate(evs):
            tr.count('C10.arrival_events')
            if k >= len(samples): tr.v('C10', 'arrival_without_sample', (key, k)); break
            if exact:
                acc = Decimal(str(samples[k])) if acc is None else Decimal(str(acc)) + Decimal(str(samples[k]))
            else:
                acc = samples[k] if acc is None else acc + samples[k]
            if acc != date: tr.v('C10', 'arrival_not_partial_sum', (key, k, str(acc), str(date))); break
            if t != date: tr.v('C10', 'arrival_event_not_at_its_date', (key, k, t, date))
        if not crashed and len(samples) != len(evs) + 1: tr.v('C10', 'arrival_samples_count', (key, len(samples), len(evs)))
    if not crashed:
        for key, samples in by.items():
            if key not in arrs and len(samples) != 1: tr.v('C10', 'arrival_samples_count', (key, len(samples), 0))
        # no arrival is skipped: when a run to time T returns, the pending arrival of every stream lies at or after T
        if spec['run']['method'] == 'time':
            T = spec['run']['T']
            for key, samples in by.items():
                acc = None
                for v in samples:
                    if exact: acc = Decimal(str(v)) if acc is None else Decimal(str(acc)) + Decimal(str(v))
                    else: acc = v if acc is None else acc + v
                tr.count('C10.pending_arrivals_checked')
                if acc is not None and acc < T: tr.v('C10', 'arrival_due_before_horizon_not_executed', (key, str(acc), T, len(samples)))
    bat = collections.defaultdict(list)
    for (stream, t, ind, v) in slog:
        if stream[0] == 'bat': bat[(stream[1], stream[2])].append((t, v))
    for key, evs in arrs.items():
        if spec['batching'] is None:
            for (date, pre, post, t) in evs:
                if post - pre != 1: tr.v('C10', 'batch_default_not_1', (key, pre, post))
        else:
            b = bat.get(key, [])
            if len(b) != len(evs) and not crashed: tr.v('C10', 'batch_samples_count', (key, len(b), len(evs)))
            for (date, pre, post, t), (bt, bv) in zip(evs, b):
                tr.count('C10.batches')
                if post - pre != bv: tr.v('C10', 'batch_size_not_honoured', (key, t, bv, post - pre))
    # every stream draws from its own copy of the distribution the user gave for it: a deterministic (Sequential / Deterministic)
    # stream must see exactly its own cyclic sequence, whatever other streams (even ones given the same object) consume
    def spec_of(stream):
        kind = stream[0]
        try:
            if kind == 'arr': return spec['arrivals'][stream[2]][stream[1] - 1]
            if kind == 'srv': return spec['services'][stream[2]][stream[1] - 1]
            if kind == 'bat': return (spec['batching'][stream[2]][stream[1] - 1] or {'d': 'det', 'v': 1}) if spec.get('batching') else None
            if kind == 'ren': return spec['reneging'][stream[2]][stream[1] - 1] if spec.get('reneging') else None
            if kind == 'cct': return (spec.get('cct') or {}).get(stream[1], {}).get(stream[2])
        except (KeyError, IndexError):
            return None
    per_stream = collections.defaultdict(list)
    for (stream, t, ind, v) in slog: per_stream[stream].append(v)
    for stream, vals in per_stream.items():
        d = spec_of(stream)
        if not d or d['d'] not in ('seq', 'det'): continue
        cyc = d['s'] if d['d'] == 'seq' else [d['v']]
        tr.count('C10.deterministic_streams')
        for k_, v in enumerate(vals):
            if v != cyc[k_ % len(cyc)]:
                tr.v('C10', 'stream_did_not_get_its_own_sequence', (stream, k_, v, cyc[:6])); break
    # services at ordinary nodes: each completed never-interrupted service lasts exactly its sample
    srv = collections.defaultdict(list)
    for (stream, t, ind, v) in slog:
        if stream[0] == 'srv': srv[(ind, stream[1], t)].append(v)
    intr_visits = set((cid, r.node, r.arrival_date) for cid, r in cx['records'] if r.record_type == 'interrupted service')
    for cid, r in cx['records']:
        if r.record_type != 'service': continue
        if nk(spec, r.node)[0] == 'PS': continue
        if (cid, r.node, r.arrival_date) in intr_visits: continue
        k = (cid, r.node, r.service_start_date)
        vals = srv.get(k)
        tr.count('C10.services')
        if not vals: tr.v('C10', 'service_without_sample', (k,)); continue
        hit = None
        for v in vals:
            exp_end = (Decimal(str(r.service_start_date)) + Decimal(str(v))) if exact else r.service_start_date + v
            if r.service_end_date == exp_end: hit = v; break
        if hit is None: tr.v('C10', 'service_duration_not_sample', (k, vals[:3], str(r.service_end_date)))
        else: vals.remove(hit)
    # each fresh service start consumed exactly one sample: no sample for a customer at an instant it did not start
    starts = collections.Counter()
    hooks_ok = hook_audit(tr, cx)
    for e in tr.events:
        if e[0] == 'attach' and not e[7]: starts[(e[3], e[2])] += 1
    nsamp = collections.Counter()
    for (stream, t, ind, v) in slog:
        if stream[0] == 'srv': nsamp[(ind, stream[1])] += 1
    for (cid, nid), ns in nsamp.items():
        if not ordinary_finite(spec, nid): continue
        # resample after pre-emption takes extra samples; only judge runs without any pre-emption option
        if ({'prio_preempt', 'sched_preempt'} & cx['features']) or not hooks_ok: break
        tr.count('C10.sample_vs_start_counts')
        if cx['t_cut'] is None and ns != starts[(cid, nid)]:
            tr.v('C10', 'service_samples_vs_service_starts', (cid, nid, ns, starts[(cid, nid)]))


# ---------------------------------------------------------------- C11 pre-emptive priorities
def c11(tr, cx):
    spec = cx['spec']
    pp = spec['prio_preempt']
    if not pp: return
    for k, s in enumerate(tr.snaps):
        for nid, nd in s['nodes'].items():
            if not pp[nid - 1] or nk(spec, nid) != ('Node', 'int'): continue
            inserv = [i for i in nd['inds'] if i['server'] is not None and i['id'] not in nd['intr'] and not i['blocked']]
            waiting = [i for i in nd['inds'] if i['server'] is None]
            if inserv and waiting:
                tr.count('C11.snapshots_with_waiting')
                mx = max(i['prio'] for i in inserv); mn = min(i['prio'] for i in waiting)
                if mn < mx: tr.v('C11', 'priority_inversion', (k, s['t'], nid, [(i['id'], i['prio']) for i in inserv], [(i['id'], i['prio']) for i in waiting][:6], s['evnode'], s['evtype']))
    reroutes = {}
    for E, inner in groups_of(tr):
        for j, e in enumerate(inner):
            if e[0] == 'preempt':
                _, t, nid, vid, newid, vprio, nprio, inserv, vst, vsed, vren = e
                tr.count('C11.preemptions')
                cand = [x for x in inserv if not x[3] and not x[4]]   # blocked customers and overtime servers are not eligible
                if not cand: tr.v('C11', 'victim_blocked', e[:7]); continue
                mx = max(x[1] for x in cand)
                me = [y for y in inserv if y[0] == vid]
                if not me: tr.v('C11', 'victim_not_in_service', e[:7]); continue
                if me[0][3]: tr.v('C11', 'victim_blocked', e[:7])
                if me[0][4]: tr.v('C11', 'victim_on_offduty_server', e[:7])
                if vprio != mx: tr.v('C11', 'victim_not_lowest_priority', e[:8])
                elif any(x[1] == mx and x[2] > me[0][2] for x in cand): tr.v('C11', 'victim_not_most_recent', e[:8])
                if not (nprio < vprio): tr.v('C11', 'preempt_without_higher_priority', e[:8])
                if pp[nid - 1] == 'reroute':
                    rr = [x for x in inner[j + 1:] if x[0] == 'reroute_to' and x[3] == vid]
                    rel = [x for x in inner[j + 1:] if x[0] == 'release' and x[3] == vid and x[5]]
                    if not rr or not rel or rr[0][4] != rel[0][4]: tr.v('C11', 'reroute_victim_not_sent_on', (t, nid, vid))
                else:
                    # victim must be waiting (no server) right after, interruption record written
                    pass
    srvlog = collections.defaultdict(list)
    for (stream, t, ind, v) in tr.logs.slog:
        if stream[0] == 'srv': srvlog[(ind, stream[1])].append((t, v))
    # visits keyed by the customer's visit index at that node (from accept events)
    visit_no = collections.Counter()
    visit_of = {}
    for e in tr.events:
        if e[0] == 'accept':
            visit_no[(e[3], e[2])] += 1
            visit_of[(e[3], e[2], e[1], visit_no[(e[3], e[2])])] = True
    per = collections.defaultdict(list)
    for cid, r in cx['records']:
        if r.record_type in ('service', 'interrupted service'): per[(cid, r.node)].append(r)
    pre_t = collections.defaultdict(list)
    for e in tr.events:
        if e[0] == 'preempt': pre_t[(e[3], e[2])].append(e[1])
    for (cid, nid), rs in per.items():
        opt = pp[nid - 1]
        if not opt or opt == 'reroute' or nk(spec, nid) != ('Node', 'int'): continue
        # split into visits: a visit ends with a 'service' record
        visits = []; cur = []
        for r in rs:
            cur.append(r)
            if r.record_type == 'service': visits.append(cur); cur = []
        samples = list(srvlog.get((cid, nid), []))
        for vis in visits:
            first = vis[0]
            # consume samples of this visit: the first one is taken at the first service start of the visit
            s0 = [x for x in samples if x[0] == first.service_start_date]
            if not s0: tr.v('C11', 'no_first_sample', (cid, nid, first.service_start_date)); break
            req = s0[0][1]
            samples.remove(s0[0])
            if len(vis) < 2: continue
            tr.count('C11.interrupted_visits')
            fin = vis[-1]
            for r in vis[:-1]:
                if r.record_type != 'interrupted service': tr.v('C11', 'non_final_not_interrupted', (cid, nid))
                if r.exit_date not in pre_t.get((cid, nid), []): tr.v('C11', 'interruption_record_not_at_preemption', (cid, nid, r.exit_date))
            if opt == 'resume':
                tot = sum(float(r.exit_date) - float(r.service_start_date) for r in vis[:-1]) + float(fin.service_end_date) - float(fin.service_start_date)
                if not close(tot, req, 1e-7): tr.v('C11', 'resume_total_service', (cid, nid, tot, req))
                for r in vis[:-1]:
                    pass
            elif opt == 'restart':
                if not close(fin.service_time, req, 1e-9): tr.v('C11', 'restart_not_same_time', (cid, nid, float(fin.service_time), req))
            elif opt == 'resample':
                # every restart of the visit takes a fresh sample at its start instant
                for r in vis[1:]:
                    sx = [x for x in samples if x[0] == r.service_start_date]
                    if not sx: tr.v('C11', 'resample_no_fresh_sample', (cid, nid, r.service_start_date)); break
                    samples.remove(sx[0])
                    if r is fin and not close(fin.service_time, sx[0][1], 1e-9):
                        tr.v('C11', 'resample_not_fresh', (cid, nid, float(fin.service_time), sx[0][1]))
            for r in vis[:-1]:
                if opt in ('resume', 'restart') and r is vis[0] and not close(r.service_time, req, 1e-9):
                    tr.v('C11', 'interruption_record_intended_time', (cid, nid, float(r.service_time), req))


# ---------------------------------------------------------------- C12 schedules / slots
def timetable(sv, t):
    """(servers before boundary, after, is boundary) according to the declared cyclic timetable"""
    off, ends, nums = sv['offset'], sv['ends'], sv['nums']
    cyc = ends[-1]
    if t < off - 1e-9: return 0, 0, False
    x = t - off
    k = math.floor(x / cyc + 1e-9)
    y = x - k * cyc
    bounds = [0.0] + list(ends)
    for i, b in enumerate(bounds):
        if abs(y - b) < 1e-9:
            after = nums[i % len(nums)] if i < len(nums) else nums[0]
            before = (nums[i - 1] if i > 0 else (nums[-1] if (k > 0) else 0))
            return before, after, True
    for i in range(len(ends)):
        if y < ends[i]: return nums[i], nums[i], False
    return nums[0], nums[0], False


def slot_times(sv, upto):
    out = []; k = 0
    cyc = sv['slots'][-1]
    while True:
        for i, b in enumerate(sv['slots']):
            t = sv['offset'] + b + k * cyc
            if t > upto + 1e-9: return out
            out.append((t, sv['sizes'][i]))
        k += 1


def c12(tr, cx):
    spec = cx['spec']
    for k, s in enumerate(tr.snaps):
        for nid, nd in s['nodes'].items():
            cls, kind = nk(spec, nid)
            if kind != 'schedule' or cls != 'Node': continue
            sv = spec['nodes'][nid - 1]['servers']
            on = len([x for x in nd['servers'] if not x['off']])
            before, after, isb = timetable(sv, float(s['t']))
            tr.count('C12.on_duty_checks')
            if isb:
                ok = on in (before, after) if not (s['evnode'] == nid and s['evtype'] == 'shift_change') else on == after
            else: ok = on == before
            if not ok: tr.v('C12', 'on_duty_count', (k, s['t'], nid, on, before, after, isb, s['evnode'], s['evtype']))
            if nd['c'] != (after if (isb and s['evnode'] == nid and s['evtype'] == 'shift_change') else nd['c']):
                tr.v('C12', 'node_c_after_shift', (k, s['t'], nid, nd['c'], after))
    # the date of every shift change / slot is the declared one: offset + boundary + (whole cycles) * cycle length, evaluated
    # exactly (Fractions of the declared floats). One float formula is within ~2 ulp of it whatever the order of operations;
    # dates built by repeated addition drift by hundreds of ulps after some thousand cycles (pinned long_nondyadic_*, soak runs)
    from fractions import Fraction
    for k, s in enumerate(tr.snaps):
        if s['evtype'] not in ('shift_change', 'slotted_service') or not s['evnode'] or isinstance(s['t'], Decimal): continue
        nid = s['evnode']; cls, kind = nk(spec, nid)
        if kind not in ('schedule', 'slotted'): continue
        sv = spec['nodes'][nid - 1]['servers']
        bounds = [Fraction(float(b)) for b in (sv['ends'] if kind == 'schedule' else sv['slots'])]
        off, cyc, t = Fraction(float(sv['offset'])), bounds[-1], Fraction(float(s['t']))
        if cyc <= 0: continue
        kc = (t - off) // cyc
        cands = [off + b + j * cyc for j in (kc - 1, kc, kc + 1) if j >= 0 for b in bounds] + [off]
        d = min(abs(t - c) for c in cands)
        tr.count('C12.boundary_dates_checked')
        if d > 8 * Fraction(math.ulp(float(s['t']))):
            tr.v('C12', 'shift_or_slot_date_drifts_from_timetable', (k, s['t'], nid, s['evtype'], float(d / Fraction(math.ulp(float(s['t']))))))
            break
    # documented order of simultaneous events at one node: slotted service, shift change, end of service, class change, renege
    rank = {'slotted_service': 0, 'shift_change': 1, 'end_service': 2, 'class_change': 3, 'renege': 4}
    last_at = {}
    for e in tr.events:
        if e[0] != 'EVENT' or e[2] == 0 or e[3] not in rank: continue
        prev = last_at.get(e[2])
        if prev is not None and prev[0] == e[1] and rank[e[3]] < 2 and prev[1] > rank[e[3]]:
            tr.count('C12.same_instant_orderings')
            tr.v('C12', 'shift_or_slot_after_later_ranked_event_at_same_instant', (e[1], e[2], e[3], prev[2]))
        if prev is not None and prev[0] == e[1]: tr.count('C12.same_instant_orderings')
        last_at[e[2]] = (e[1], rank[e[3]], e[3])
    shift_end = {}
    for e in tr.events:
        if e[0] == 'shift' and nk(spec, e[2])[1] == 'schedule':
            tr.count('C12.shift_changes')
            sv = spec['nodes'][e[2] - 1]['servers']
            if not timetable(sv, float(e[1]))[2]: tr.v('C12', 'shift_change_not_at_boundary', e)
        if e[0] == 'attach':
            _, t, nid, cid, sid, prio, arr, intr, waiting, inserv, off, insrv, nintr, order, had, ctx = e[:16]
            if nk(spec, nid)[1] != 'schedule': continue
            sv = spec['nodes'][nid - 1]['servers']
            before, after, isb = timetable(sv, float(t))
            tr.count('C12.service_starts')
            in_preempt = ctx is not None and ctx[0] == 'preempt'
            if off and not in_preempt: tr.v('C12', 'service_started_by_offduty_server', e[:6])
            if max(before, after) == 0 and not in_preempt: tr.v('C12', 'service_started_with_zero_servers', e[:6])
            if nintr > 0 and not intr and not in_preempt: tr.v('C12', 'fresh_before_interrupted', e[:8])
        if e[0] == 'interrupt' and nk(spec, e[2])[1] == 'schedule':
            sv = spec['nodes'][e[2] - 1]['servers']
            tr.count('C12.interruptions')
            if not sv['preempt']: tr.v('C12', 'interrupted_in_nonpreemptive_schedule', e)
            if not timetable(sv, float(e[1]))[2]: tr.v('C12', 'interrupt_not_at_shift_end', e)
    # every boundary of the declared timetable is a shift change - also one between two shifts of equal size (the old servers
    # leave, fresh ones come on duty; under pre-emption the services in progress are interrupted there)
    if tr.snaps:
        t_last = float(tr.snaps[-1]['t'])
        for nid in range(1, spec['n'] + 1):
            cls, kind = nk(spec, nid)
            if kind != 'schedule' or cls != 'Node': continue
            sv = spec['nodes'][nid - 1]['servers']
            got = [float(sn['t']) for sn in tr.snaps if sn['evnode'] == nid and sn['evtype'] == 'shift_change']   # the engine's own event type, not a method hook
            exp = [sv['offset']] if sv['offset'] > 0 else []
            m = 0
            while len(exp) < 5000:
                bs = [sv['offset'] + b + m * sv['ends'][-1] for b in sv['ends']]
                exp += bs; m += 1
                if bs[-1] >= t_last: break
            exp = [b for b in exp if b < t_last - 1e-9]
            tr.count('C12.timetable_boundaries', len(exp))
            missing = [b for b in exp if not any(abs(b - g) < 1e-9 for g in got)]
            if missing: tr.v('C12', 'timetable_boundary_without_shift_change', (nid, missing[:4], len(exp)))
    # pre-emptive schedules: every customer in service at a shift end is interrupted (or rerouted) at that instant
    for gi, (E, inner) in enumerate(groups_of(tr)):
        if E[3] != 'shift_change': continue
        nid = E[2]
        sv = spec['nodes'][nid - 1]['servers']
        if sv['kind'] != 'schedule' or not sv['preempt'] or gi >= len(tr.snaps): continue
        before = tr.snaps[gi]['nodes'][nid]
        served = [i['id'] for i in before['inds'] if i['server'] is not None and i['id'] not in before['intr']]
        hit = set(e[3] for e in inner if e[0] == 'interrupt' and e[2] == nid)
        tr.count('C12.preemptive_shift_ends')
        missing = [c for c in served if c not in hit]
        if missing: tr.v('C12', 'in_service_at_preemptive_shift_end_not_interrupted', (E[1], nid, missing[:5]))
    # overtime entries (non-pre-emptive): detach time - shift end
    for nid, overtime in cx['overtime']:
        sv = spec['nodes'][nid - 1]['servers']
        if sv['kind'] != 'schedule' or sv['preempt'] or not cx['final_ok']: continue
        exp = []
        offsince = {}
        for E, inner in groups_of(tr):
            for e in inner:
                pass
        # reconstruct from snapshots: server goes off duty at shift change; leaves when detached
        off_at = {}
        prev = None
        for s in tr.snaps:
            cur = {x['id']: x['off'] for x in s['nodes'][nid]['servers']}
            if prev is not None:
                for sid, was_off in prev.items():
                    if sid not in cur:
                        # server left during this event
                        if sid in off_at: exp.append(float(s['t']) - off_at.pop(sid))
                        else:
                            exp.append(0.0) if (s['evnode'] == nid and s['evtype'] == 'shift_change') else exp.append(None)
                for sid, off in cur.items():
                    if off and sid not in off_at and not prev.get(sid, False): off_at[sid] = float(s['t'])
            prev = cur
        tr.count('C12.overtime_entries', len(overtime))
        if None in exp: tr.v('C12', 'on_duty_server_disappeared', (nid,)); continue
        got = sorted(float(x) for x in overtime)
        exp = sorted(exp)   # several servers can leave within one event; the order inside an event is not specified
        if len(got) != len(exp) or any(abs(a - b) > 1e-9 for a, b in zip(got, exp)):
            bad = [(a, b) for a, b in zip(got, exp) if abs(a - b) > 1e-9][:4]
            tr.v('C12', 'overtime_list', (nid, len(got), len(exp), bad))
    # slotted nodes
    for nid0, ndspec in enumerate(spec['nodes']):
        nid = nid0 + 1
        if ndspec['servers']['kind'] != 'slotted' or ndspec['node_class'] == 'PS': continue
        sv = ndspec['servers']
        tend = float(tr.snaps[-1]['t'])
        slots = slot_times(sv, tend)
        # every slot instant of the declared timetable is a slot event - also one of size 0 (under capacitated pre-emptive slots
        # it is the instant at which services in progress are cut down to the slot size)
        got_slots = [float(sn['t']) for sn in tr.snaps if sn['evnode'] == nid and sn['evtype'] == 'slotted_service']
        due = [s_[0] for s_ in slots if s_[0] < tend - 1e-9]
        tr.count('C12.timetable_slots', len(due))
        missing = [b for b in due if not any(abs(b - g) < 1e-9 for g in got_slots)]
        if missing: tr.v('C12', 'timetable_slot_without_slot_event', (nid, missing[:4], len(due)))
        for k in range(1, len(tr.snaps)):
            a, b = tr.snaps[k - 1]['nodes'][nid], tr.snaps[k]['nodes'][nid]
            t = tr.snaps[k]['t']
            prev = {i['id']: i for i in a['inds']}
            started = [i for i in b['inds'] if i['ssd'] is not False and (i['id'] not in prev or prev[i['id']]['ssd'] != i['ssd'] or prev[i['id']]['arr'] != i['arr'])]
            is_slot_event = tr.snaps[k]['evnode'] == nid and tr.snaps[k]['evtype'] == 'slotted_service'
            if is_slot_event:
                tr.count('C12.slots')
                if not [s_ for s_ in slots if abs(s_[0] - float(t)) < 1e-9]: tr.v('C12', 'slot_event_not_at_timetable_instant', (k, t, nid))
            if started:
                m = [s_ for s_ in slots if abs(s_[0] - float(t)) < 1e-9]
                if not m or not is_slot_event:
                    tr.v('C12', 'slotted_start_outside_slot', (k, t, nid, [i['id'] for i in started], tr.snaps[k]['evtype'])); continue
                size = m[0][1]
                if len(started) > size: tr.v('C12', 'more_starts_than_slot_size', (k, t, nid, len(started), size))
                ins_after = len([i for i in b['inds'] if i['ssd'] is not False])
                ins_before = len([i for i in a['inds'] if i['ssd'] is not False])
                if sv['capacitated']:
                    lim = size if sv['preempt'] else max(size, ins_before)
                    if ins_after > lim: tr.v('C12', 'capacitated_slot_exceeded', (k, t, nid, ins_after, lim, sv['preempt']))
                # a slot must start min(size [minus in service if capacitated], waiting) services
                waiting_before = len([i for i in a['inds'] if i['ssd'] is False])
            if is_slot_event and not sv['preempt']:
                m = [s_ for s_ in slots if abs(s_[0] - float(t)) < 1e-9]
                if m:
                    size = m[0][1]
                    waiting_before = len([i for i in a['inds'] if i['ssd'] is False])
                    ins_before = len([i for i in a['inds'] if i['ssd'] is not False])
                    want = min(max(size - ins_before, 0), waiting_before) if sv['capacitated'] else min(size, waiting_before)
                    if len(started) != want: tr.v('C12', 'slot_started_wrong_number', (k, t, nid, len(started), want, size, ins_before, waiting_before))


# ---------------------------------------------------------------- C13 reneging / baulking
def c13(tr, cx):
    spec = cx['spec']
    slog = tr.logs.slog
    exact = bool(spec['exact'])
    pat = collections.defaultdict(list)   # several visits can start at one instant (zero service time + self-loop)
    for (stream, t, ind, v) in slog:
        if stream[0] == 'ren': pat[(ind, stream[1], t)].append(v)

    def deadline(arr, p):
        return (Decimal(str(arr)) + Decimal(str(p))) if exact else arr + p
    # accept events: each arrival at a reneging node/class sampled exactly one patience
    for k, s in enumerate(tr.snaps):
        for nid, nd in s['nodes'].items():
            if not ordinary_finite(spec, nid): continue
            for i in nd['inds']:
                if i['server'] is None and i['id'] not in nd['intr']:
                    ps = pat.get((i['id'], nid, i['arr']))
                    if ps:
                        tr.count('C13.waiting_with_patience')
                        if i['ren'] != INF and not any(i['ren'] == deadline(i['arr'], p) for p in ps):
                            tr.v('C13', 'reneging_date_not_arrival_plus_patience', (k, nid, i['id'], str(i['ren']), [str(deadline(i['arr'], p)) for p in ps]))
                        if all(deadline(i['arr'], p) < s['t'] for p in ps) and i['ren'] != INF:
                            tr.v('C13', 'waiting_beyond_patience', (k, s['t'], nid, i['id'], i['arr'], ps))
    served_before = set()
    for e in tr.events:
        if e[0] == 'renege':
            tr.count('C13.renege_events')
            if e[4] and any(e[4]): tr.v('C13', 'customer_with_server_reneged', e)
    groups = groups_of(tr)
    for E, inner in groups:
        if E[3] != 'renege': continue
        jk = [e for e in inner if e[0] == 'jockey']
        if len(jk) != 1: tr.v('C13', 'renege_without_single_jockey_decision', (E[1], E[2], len(jk))); continue
        cid, dest = jk[0][3], jk[0][4]
        moved = [e for e in inner if (e[0] == 'accept' and e[3] == cid) or (e[0] == 'exit' and e[2] == cid)]
        if not moved: tr.v('C13', 'reneger_did_not_move', (E[1], E[2], cid)); continue
        m = moved[0]
        got = m[2] if m[0] == 'accept' else -1
        if got != dest: tr.v('C13', 'reneger_went_elsewhere', (E[1], E[2], cid, got, dest))
    for cid, r in cx['records']:
        if r.record_type == 'renege':
            tr.count('C13.renege_records')
            ps = pat.get((cid, r.node, r.arrival_date))
            if not ps: tr.v('C13', 'renege_without_patience_sample', tuple(r))
            elif not any(r.exit_date == deadline(r.arrival_date, p) for p in ps): tr.v('C13', 'renege_not_at_patience', (cid, str(r.arrival_date), ps, str(r.exit_date)))
        elif r.record_type == 'service':
            ps = pat.get((cid, r.node, r.arrival_date))
            if ps and nk(spec, r.node) == ('Node', 'int') and not spec.get('prio_preempt'):
                tr.count('C13.served_with_patience')
                if all(r.service_start_date > deadline(r.arrival_date, p) for p in ps):
                    tr.v('C13', 'served_after_patience', (cid, r.node, str(r.arrival_date), ps, str(r.service_start_date)))
    bk = {cid for cid, r in cx['records'] if r.record_type == 'baulk'}
    rej = {cid for cid, r in cx['records'] if r.record_type == 'rejection'}
    exits = collections.defaultdict(set)
    for E, inner in groups:
        if E[3] == 'arrival':
            for e in inner:
                if e[0] == 'exit': exits[E[1]].add(e[2])
    # the baulking function is consulted exactly once for every arrival that is not rejected, at whatever kind of node
    if spec.get('baulking'):
        consulted = collections.Counter(cid for (t, nid, c, cid, n, truen, p) in tr.logs.blog)
        for E, inner in groups:
            if E[3] != 'arrival': continue
            cls_ = [e[3] for e in inner if e[0] == 'arrival']
            if not cls_: continue
            for e in inner:
                if e[0] != 'arrive_try': continue
                fn = (spec['baulking'].get(cls_[0]) or [None] * e[2])[e[2] - 1]
                if fn is None or e[3] in rej: continue
                tr.count('C13.arrivals_with_baulking_function')
                if consulted[e[3]] != 1: tr.v('C13', 'baulking_function_not_consulted_once', (e[1], e[2], e[3], consulted[e[3]]))
    nb = 0; nq = 0
    zs = [(p, cid in bk) for (t, nid, c, cid, n, truen, p) in tr.logs.blog if 0.0 < p < 1.0 and (cx['t_cut'] is None or t < cx['t_cut'])]
    if zs:
        tr.counters['C13.agg.S'] = tr.counters.get('C13.agg.S', 0.0) + sum((1 if b else 0) - p for p, b in zs)
        tr.counters['C13.agg.V'] = tr.counters.get('C13.agg.V', 0.0) + sum(p * (1 - p) for p, b in zs)
    if len(zs) >= 30:
        mean = sum(p for p, b in zs); var = sum(p * (1 - p) for p, b in zs); got = sum(1 for p, b in zs if b)
        tr.count('C13.baulk_frequency_tests')
        if var > 0 and abs(got - mean) / var ** 0.5 > 6.0:
            tr.v('C13', 'baulk_frequency_far_from_probability', (len(zs), got, round(mean, 2), round(var ** 0.5, 2)))
    for (t, nid, c, cid, n, truen, p) in tr.logs.blog:
        if cx['t_cut'] is not None and t >= cx['t_cut']: continue
        tr.count('C13.baulk_decisions')
        if n != truen: tr.v('C13', 'baulk_fn_wrong_population', (t, nid, cid, n, truen))
        if cid in rej: tr.v('C13', 'baulk_consulted_for_rejected', (t, nid, cid))
        if p == 0.0 and cid in bk: tr.v('C13', 'baulked_with_prob0', (t, nid, cid))
        if p == 1.0 and cid not in bk: tr.v('C13', 'not_baulked_with_prob1', (t, nid, cid))
        if cid in bk:
            if cid not in exits[t]: tr.v('C13', 'baulker_not_at_exit_at_once', (t, nid, cid))
            if cx['final_ok'] and len(cx['where'].get(cid, (None, [None], None))[1]) != 1: tr.v('C13', 'baulker_has_other_records', (cid,))


def taint_open():
    from . import taint
    return taint.open_findings()


# ---------------------------------------------------------------- C17 trackers
def tracker_oracle(spec, s, blocked_rank):
    name = spec['tracker']; n = spec['n']
    pops = [len(s['nodes'][i + 1]['inds']) for i in range(n)]
    if name == 'SystemPopulation': return sum(pops)
    if name == 'NodePopulation': return tuple(pops)
    from .gen import tracker_params
    tp = tracker_params(spec)
    if name == 'NodePopulationSubset': return tuple(pops[i] for i in tp['observed'])
    if name == 'GroupedNodePopulation':
        return tuple(sum(pops[i] for i in g) for g in tp['groups'])
    if name == 'NodeClassMatrix':
        return tuple(tuple(sum(1 for i in s['nodes'][k + 1]['inds'] if i['cls'] == c) for c in tp['class_order']) for k in range(n))
    if name == 'NaiveBlocking':
        return tuple((sum(1 for i in s['nodes'][k + 1]['inds'] if not i['blocked']), sum(1 for i in s['nodes'][k + 1]['inds'] if i['blocked'])) for k in range(n))
    if name == 'MatrixBlocking':
        mat = [[[] for _ in range(n)] for _ in range(n)]
        bl = []
        for k in range(n):
            for i in s['nodes'][k + 1]['inds']:
                if i['blocked']: bl.append((blocked_rank.get(i['id'], 10 ** 9), k, i['dest'] - 1))
        bl.sort()
        for rank, (_, a, b) in enumerate(bl, 1): mat[a][b].append(rank)
        return (tuple(tuple(tuple(x) for x in row) for row in mat), tuple(pops))
    return None


def flat_counts(state):
    if isinstance(state, (int,)): return [state]
    out = []
    if isinstance(state, (tuple, list)):
        for x in state: out += flat_counts(x)
    return out


def c17(tr, cx):
    spec = cx['spec']
    if not spec['tracker']: return
    seq = 0; rank = {}
    groups = groups_of(tr)
    expected_seq = []
    for k, s in enumerate(tr.snaps):
        if k >= 1 and k - 1 < len(groups):
            for e in groups[k - 1][1]:
                if e[0] == 'block': seq += 1; rank[e[3]] = seq
        exp = tracker_oracle(spec, s, rank)
        expected_seq.append((s['t'], exp))
        tr.count('C17.state_comparisons')
        if exp != s['tracker']:
            tr.v('C17', 'tracker_state_mismatch', (k, s['t'], spec['tracker'], s['tracker'], exp, s['evnode'], s['evtype']))
            break
        if spec['tracker'] != 'MatrixBlocking' and any(x < 0 for x in flat_counts(s['tracker'])):
            tr.v('C17', 'negative_count', (k, s['t'], s['tracker']))
    if not cx['final_ok'] or cx['history'] is None: return
    h = cx['history']
    for a, b in zip(h, h[1:]):
        if b[0] < a[0]: tr.v('C17', 'history_time_decreasing', (a, b))
        if a[1] == b[1]: tr.v('C17', 'history_duplicate_state', (a, b))
    if spec['run']['method'] in ('time', 'customers'):
        dedup = []
        for t, st in expected_seq:
            if not dedup or dedup[-1][1] != st: dedup.append((t, st))
        tr.count('C17.history_entries', len(h))
        if [x[1] for x in dedup] != [x[1] for x in h] or any(float(a[0]) != float(b[0]) for a, b in zip(dedup, h)):
            tr.v('C17', 'history_differs_from_expected_sequence', ([(float(a), b) for a, b in h[:5]], [(float(a), b) for a, b in dedup[:5]]))
    r = random.Random(spec['seed'])
    exact = bool(spec['exact'])
    num = (lambda x: Decimal(str(x))) if exact else float
    tend = float(tr.snaps[-1]['t'])
    if tend <= 0 or len(h) < 3: return
    for wi in range(6):
        a = r.uniform(0, tend * 0.6); b = r.uniform(a + 0.01, tend)
        a, b = num(round(a, 6)), num(round(b, 6))
        mode = wi % 3
        if mode == 1:  # endpoints that coincide with history timestamps
            ts = [x[0] for x in h]
            a = r.choice(ts[:-1]); later = [x for x in ts if x > a]
            if not later: continue
            b = r.choice(later)
            a, b = num(a), num(b)
        elif mode == 2 and spec['lattice']:
            a = num(math.floor(a)); b = max(a + 1, num(math.floor(b)))
        if float(b) - float(a) < 1e-6: continue   # degenerate window (precision of the arithmetic, not of the tracker)
        try:
            got = cx['state_probabilities']((a, b))
        except Exception as ex:
            tr.v('C17', 'state_probabilities_raised', (str(a), str(b), repr(ex))); continue
        tr.count('C17.probability_windows')
        exp = collections.defaultdict(lambda: num(0))
        for (t0, st), (t1, _) in zip(h, h[1:] + [[None, None]]):
            lo = max(num(t0), a); hi = b if t1 is None else min(num(t1), b)
            if hi > lo: exp[st] += hi - lo
        tot = sum(exp.values())
        if tot <= 0: continue
        exp = {k_: float(v / tot) for k_, v in exp.items()}
        if abs(sum(float(x) for x in got.values()) - 1) > 1e-9: tr.v('C17', 'probs_not_sum_1', (str(a), str(b)))
        keys = set(exp) | set(k_ for k_, v in got.items() if float(v) > 1e-12)
        if any(abs(float(got.get(k_, 0)) - exp.get(k_, 0)) > 1e-7 for k_ in keys):
            tr.v('C17', 'state_probabilities_wrong', (str(a), str(b), dict(list(got.items())[:4]), dict(list(exp.items())[:4])))
    # the default observation window (0, infinity) - the form the documentation uses. Any reading of "share of time" must
    # stop where knowledge stops: at the last recorded state change (A) or at the final clock (B). Open finding K34: the engine
    # instead credits the final state with the length of the *previous* sojourn (a stale loop variable); that exact formula is
    # recognised and reported as the known finding, anything else that is neither A nor B is a violation.
    def shares(h_, end_extra):
        d = collections.defaultdict(lambda: num(0))
        for (t0, st), (t1, _) in zip(h_, h_[1:]):
            d[st] += num(t1) - num(t0)
        d[h_[-1][1]] += end_extra
        tot_ = sum(d.values())
        return None if tot_ <= 0 else {k_: float(v / tot_) for k_, v in d.items()}
    stale = shares(h, num(h[-1][0]) - num(h[-2][0]))
    try:
        got = cx['state_probabilities']((0, float('inf')))
    except Exception as ex:
        if isinstance(ex, ZeroDivisionError) and stale is None and 'K34' in taint_open():
            # same stale term: every recorded change at one instant, so the stale term is 0 and the total 0 (0/0)
            cx['soft']['K34'] = True; tr.count('C17.K34_unbounded_window_stale_term'); return
        tr.v('C17', 'state_probabilities_raised', ('0', 'inf', repr(ex))); return
    tr.count('C17.unbounded_windows')
    got = {k_: float(v) for k_, v in got.items()}
    def same(exp_):
        if exp_ is None: return False
        keys_ = set(k_ for k_, v in exp_.items() if v > 1e-12) | set(k_ for k_, v in got.items() if v > 1e-12)
        return all(abs(got.get(k_, 0.0) - exp_.get(k_, 0.0)) <= 1e-7 for k_ in keys_)
    reading_a = shares(h, num(0))
    reading_b = shares(h, max(num(cx['final']['clock']) - num(h[-1][0]), num(0)))
    if same(reading_a) or same(reading_b): return
    if same(stale) and 'K34' in taint_open():
        cx['soft']['K34'] = True; tr.count('C17.K34_unbounded_window_stale_term'); return
    tr.v('C17', 'unbounded_window_probabilities_wrong', (dict(list(got.items())[:4]), dict(list((reading_a or {}).items())[:4])))


# ---------------------------------------------------------------- C14 normal termination
def min_service(spec):
    def mn(d):
        k = d['d']
        if k == 'det': return d['v']
        if k == 'seq': return min(d['s'])
        if k == 'pmf': return min(d['vals'])
        if k == 'timedep': return min(d['vals'])
        if k == 'statedep': return d['base']
        return 1e-12
    return min(mn(d) for c in spec['classes'] for d in spec['services'][c])


def c14(tr, cx):
    spec = cx['spec']
    run = spec['run']
    if cx['t_cut'] is not None and cx['status'] != 'crash':
        return   # everything after an open finding's trigger belongs to that finding
    if cx['t_cut'] is not None and cx.get('tainted'):
        return   # a crash after an open finding's trigger belongs to that finding
    tr.count('C14.runs')
    if cx['status'] == 'crash':
        c = cx['crash']
        tr.v('C14', 'crash:%s:%s' % (c[0], c[2]), c)
        return
    if cx['status'] == 'cap':
        ts = [e[1] for e in tr.events if e[0] == 'EVENT']
        if len(ts) > 5000 and ts[-5000] == ts[-1] and min_service(spec) > 0 and not spec.get('batching'):
            tr.v('C14', 'no_progress_at_fixed_clock', (ts[-1], len(ts)))
        return
    if cx['status'] != 'ok' or cx['final'] is None: return
    tr.count('C14.runs_completed')
    fin = cx['final']
    last = tr.snaps[-1]
    if run['method'] == 'time':
        T = run['T']
        for e in tr.events:
            if e[0] == 'EVENT':
                tr.count('C14.events_vs_horizon')
                if not (e[1] < T): tr.v('C14', 'event_at_or_after_horizon', (e[1], T, e[2], e[3])); break
        if not (fin['min_next'] >= T): tr.v('C14', 'event_before_horizon_not_executed', (str(fin['min_next']), T))
        # independent of the engine's cached next-event dates: nothing that is due before T is still pending in the final state
        for nid, nd in fin['snap']['nodes'].items():
            if nk(spec, nid)[0] != 'Node': continue
            for i in nd['inds']:
                if i['id'] in nd['intr'] or i['blocked']: continue
                tr.count('C14.pending_checks')
                inf_node = nk(spec, nid)[1] == 'inf'   # no server objects: everybody present and not blocked is in service
                if (i['server'] is not None or inf_node) and i['sed'] is not False and i['sed'] < T:
                    tr.v('C14', 'service_end_due_before_horizon_still_pending', (nid, i['id'], str(i['sed']), T)); break
                has_ren = bool(spec.get('reneging')) and spec['reneging'].get(i['cls'], [None] * nid)[nid - 1] is not None   # (a stale date from an earlier node is not used here)
                if i['server'] is None and has_ren and i['ren'] != INF and i['ren'] < T and nk(spec, nid)[1] in ('int', 'schedule'):
                    tr.v('C14', 'renege_due_before_horizon_still_pending', (nid, i['id'], str(i['ren']), T)); break
        if fin['clock'] != fin['min_next']: tr.v('C14', 'clock_not_at_next_event', (str(fin['clock']), str(fin['min_next'])))
    elif run['method'] == 'customers':
        ag = getattr(tr, 'again', None)
        if ag is not None:
            tr.count('C14.repeated_calls')
            if ag[0] != ag[1]: tr.v('C14', 'repeated_call_executed_events', ag)
        key = {'Complete': 'exit_completed', 'Finish': 'n_exit', 'Arrive': 'n_arr', 'Accept': 'n_accepted'}[run['cmethod']]
        n = run['n']
        # harness-side recount (not the engine counters): completed = exit events with completed flag, etc.
        comp = 0; fini = 0; arrived = 0; accepted = 0; counts = []
        rejected = set(); baulked = set()
        flag_comp = 0
        for E, inner in groups_of(tr):
            released_out = set(e[3] for e in inner if e[0] == 'release' and e[4] == -1)   # a reroute to the exit ends the journey too
            for e in inner:
                if e[0] == 'exit':
                    fini += 1
                    if e[3]: flag_comp += 1
                    # completed = left through a service completion (not renege / baulk / rejection / reroute), judged from
                    # the transfer log, not from the flag the engine passes to the exit node
                    if e[2] in released_out: comp += 1
                elif e[0] == 'arrive_try': arrived += 1
            # accepted = created customers that were neither rejected nor baulked: entered a node from the arrival node
            if E[3] == 'arrival':
                tried = [e[3] for e in inner if e[0] == 'arrive_try']
                joined_ = set(e[3] for e in inner if e[0] == 'join')
                accepted += sum(1 for c in tried if c in joined_)
            counts.append({'Complete': comp, 'Finish': fini, 'Arrive': arrived, 'Accept': accepted}[run['cmethod']])
        tr.count('C14.count_stops')
        if not counts: tr.v('C14', 'stopped_without_event', (n,))
        else:
            if counts[-1] < n: tr.v('C14', 'stopped_before_count_reached', (run['cmethod'], n, counts[-3:]))
            if len(counts) > 1 and counts[-2] >= n: tr.v('C14', 'ran_past_count', (run['cmethod'], n, counts[-3:]))
            if last[key] != counts[-1]: tr.v('C14', 'engine_counter_differs_from_recount', (run['cmethod'], last[key], counts[-1]))
    if cx['final'] is not None and cx['status'] == 'ok':
        # the exit node's counters agree with the transfer log whatever the run method
        comp2 = 0
        for E, inner in groups_of(tr):
            out_ = set(e[3] for e in inner if e[0] == 'release' and e[4] == -1)
            comp2 += sum(1 for e in inner if e[0] == 'exit' and e[2] in out_)
        tr.count('C14.completed_counter_checks')
        if last['exit_completed'] != comp2: tr.v('C14', 'completed_counter_differs_from_transfer_log', (last['exit_completed'], comp2))
    # unfinished customers are left in place: the configuration at return is the one after the last event
    a = {nid: [(i['id'], i['server'], i['ssd'], i['sed'], i['blocked'], i['arr']) for i in nd['inds']] for nid, nd in fin['snap']['nodes'].items()}
    b = {nid: [(i['id'], i['server'], i['ssd'], i['sed'], i['blocked'], i['arr']) for i in nd['inds']] for nid, nd in last['nodes'].items()}
    if a != b or fin['snap']['n_exit'] != last['n_exit'] or fin['snap']['n_arr'] != last['n_arr']:
        tr.v('C14', 'state_changed_after_last_event', (fin['snap']['n_exit'], last['n_exit']))


ORACLES = {'C01': c01, 'C02': c02, 'C03': c03, 'C04': c04, 'C05': c05, 'C06': c06, 'C07': c07, 'C08': c08,
           'C09': c09, 'C10': c10, 'C11': c11, 'C12': c12, 'C13': c13, 'C14': c14, 'C17': c17}
