"""Driver for the trace-based properties (C01-C13, C17): plan -> shards -> merge -> verdict + evidence."""
import sys, os, json, time, collections
from . import runner


def worker(job, extra):
    from . import core, profiles, gen, pinned
    prop, tier = extra['prop'], extra['tier']
    runs, cap, wall, ties = profiles.BUDGET[tier]
    if job.get('spec') is not None:
        spec = job['spec']
    elif job['profile'] == 'pinned':
        spec = pinned.get(prop, job['seed'])
    else:
        spec = profiles.make_spec(job['profile'], job['seed'], tier)
    if prop in profiles.REUSE_OK and job.get('spec') is None and job['profile'] != 'pinned' and job['seed'] % 8 == 3 and not spec.get('exact'):
        spec['reuse_network'] = True
    if prop == 'C17' and job.get('spec') is None and job['profile'] != 'pinned' and job['seed'] % 4 == 3 and not spec.get('exact') and spec.get('tracker'):
        spec['reuse_network'] = True; spec['reuse_tracker'] = True
    f = gen.features(spec)
    if spec.get('reuse_network'): f = f | {'reused_network'}
    if spec.get('reuse_tracker'): f = f | {'reused_tracker'}
    if job.get('fault'):
        return fault_run(job, spec, cap, wall)
    if job.get('explore'):
        return explore(job, spec, prop, f, cap, wall)
    scope = profiles.PLANS[prop][1]
    if not scope(spec, f):
        return {'job': job, 'skipped': 'out_of_scope'}
    res = core.evaluate(spec, [prop], cap=cap, wall=wall)
    res['job'] = job
    res['sig'] = repr((sorted(f), gen.topo_signature(spec)))
    if res['viol'] or res['oracle_errors'] or (res['status'] == 'crash' and not res['taint']):
        res['spec'] = spec
    res['sample'] = {'profile': job['profile'], 'seed': job['seed'], 'n_nodes': spec['n'], 'classes': len(spec['classes']),
                     'servers': [nd['servers'] for nd in spec['nodes']], 'qcap': [nd['qcap'] for nd in spec['nodes']],
                     'routing': {c: r['r'] for c, r in spec['routing'].items()}, 'tie': spec.get('tie'),
                     'run': spec['run'], 'events': res['events_judged']}
    return res


BAD = {'neg': -1.0, 'nan': float('nan'), 'str': 'x', 'floatbatch': 1.5, 'negbatch': -1, 'none': None, 'combneg': 'COMBNEG'}


def fault_run(job, spec, cap, wall):
    """C10 negative path: the k-th sample of one stream kind is invalid; the run must raise ValueError, not continue."""
    from . import core
    kind, k, badname = job['fault']
    counter = [0, False]
    spec = dict(spec); spec['tie'] = 'native'
    tr, Q, status, crash = core.run_spec(spec, cap=cap, wall=wall, fault=(kind, k, BAD[badname], counter))
    res = {'job': job, 'fault': True, 'injected': counter[1], 'status': status, 'crash': crash, 'viol': [], 'oracle_errors': [],
           'events_judged': sum(1 for e in tr.events if e[0] == 'EVENT')}
    if counter[1]:
        ok = status == 'crash' and crash[0] == 'ValueError'
        if not ok:
            lab = tuple(job.get('label') or ('C10', 'invalid_sample_not_rejected'))
            res['viol'].append((lab[0], lab[1], repr((kind, k, badname, status, crash))))
            res['spec'] = spec
    return res


def explore(job, spec, prop, f, cap, wall):
    """Systematic exploration of tie resolutions of one (small, tie-rich) scenario: depth-first over scripts; the k-th tie
    situation (between nodes, or between simultaneous individuals of one node) takes choice script[k]. Bounded by job['explore'] runs."""
    from . import core, profiles
    if not profiles.PLANS[prop][1](spec, f):
        return {'job': job, 'skipped': 'out_of_scope'}
    budget = job['explore']
    stack = [[]]
    seen = 0; merged = None; scripts_done = 0; max_ties = 0
    while stack and seen < budget:
        script = stack.pop()
        sp = dict(spec); sp['tie'] = 'script'; sp['tie_script'] = script
        res = core.evaluate(sp, [prop], cap=min(cap, 3000), wall=wall)
        seen += 1; scripts_done += 1
        trace = res.get('tie_trace', [])
        max_ties = max(max_ties, len(trace))
        # children: at every tie situation beyond the scripted prefix (default choice 0 was taken) try the other choices
        for k in range(len(script), min(len(trace), 12)):
            for c in range(1, min(trace[k], 3)):
                stack.append(script + [0] * (k - len(script)) + [c])
        if merged is None:
            merged = res; merged['spec'] = None
        else:
            merged['events_judged'] += res['events_judged']
            for k_, v in res['counters'].items(): merged['counters'][k_] = merged['counters'].get(k_, 0) + v
            for k_, v in res['kinds'].items(): merged['kinds'][k_] = merged['kinds'].get(k_, 0) + v
            for k_, v in res['evtypes'].items(): merged['evtypes'][k_] = merged['evtypes'].get(k_, 0) + v
            merged['states'] = list(set(merged['states']) | set(res['states']))
            merged['ties'] += res['ties']; merged['ind_ties'] += res['ind_ties']
            merged['oracle_errors'] += res['oracle_errors']
            if res['taint'] and not merged['taint']: merged['taint'] = res['taint']
        if res['viol'] and not merged.get('viol_spec'):
            merged['viol'] = res['viol']; merged['viol_spec'] = sp
    merged['job'] = job
    merged['explored_scripts'] = scripts_done
    merged['unexplored_left'] = len(stack)
    merged['max_tie_situations'] = max_ties
    merged['sig'] = repr((sorted(f), 'explore', spec.get('name')))
    if merged.get('viol_spec'): merged['spec'] = merged['viol_spec']
    merged['sample'] = {'profile': 'explore', 'scenario': spec.get('name', job['seed']), 'scripts': scripts_done, 'max_tie_situations': max_ties,
                        'events': merged['events_judged']}
    return merged


def decide_value(res, key):
    if key.startswith('kinds.'):
        return res['kinds'].get(key[6:], 0)
    return res['counters'].get(key, 0)


def main(prop, tier, vseed, replay=None):
    from . import profiles, taint, pinned
    t0 = time.time()
    deciding = profiles.PLANS[prop][2]
    if replay:
        with open(replay) as f:
            payload = json.load(f)
        if payload.get('spec') is None:
            # a pooled statistic over the whole plan has no single-run replay: re-run the plan of that tier
            print('replay of a pooled statistic: re-running the whole %s plan' % payload.get('tier', tier))
            return main(prop, payload.get('tier', tier), vseed, None)
        jobs = [{'profile': 'replay', 'seed': payload['spec']['seed'], 'spec': payload['spec']}]
        if payload.get('job', {}).get('fault'): jobs[0]['fault'] = payload['job']['fault']
        if payload.get('job', {}).get('label'): jobs[0]['label'] = payload['job']['label']
    else:
        jobs = [{'profile': p, 'seed': s} for p, s in profiles.plan(prop, tier, vseed)]
        jobs += [{'profile': 'pinned', 'seed': k} for k in range(pinned.count(prop))]
        # systematic tie-resolution exploration of the tie-rich pinned scenarios
        nexp = 12 if tier == 'quick' else 200
        jobs += [{'profile': 'pinned', 'seed': k, 'explore': nexp} for k in pinned.explorable()]
        if prop == 'C10':
            import random as _r
            rr = _r.Random(vseed)
            nf = 150 if tier == 'quick' else 3000
            for i in range(nf):
                kind = rr.choice(['arr', 'srv', 'bat', 'ren', 'cct'])
                bad = rr.choice(['floatbatch', 'negbatch', 'str', 'nan']) if kind == 'bat' else rr.choice(['neg', 'nan', 'str', 'none', 'combneg'])
                prof = {'arr': 'c10', 'srv': 'c10', 'bat': 'c10', 'ren': 'c13', 'cct': 'c08'}[kind]
                jobs.append({'profile': prof, 'seed': vseed * 1000003 + 700000 + i, 'fault': (kind, rr.randint(1, 12), bad)})
        if prop == 'C02':
            # a negative duration (plain, or the result of a combined distribution whose parts are each valid) must be refused:
            # accepted, it schedules an event in the past (service_end < service_start, clock steps back)
            import random as _r
            rr = _r.Random(vseed + 17)
            for i in range(40 if tier == 'quick' else 800):
                kind = rr.choice(['arr', 'srv', 'srv', 'ren', 'cct'])
                prof = {'arr': 'c10', 'srv': 'c10', 'ren': 'c13', 'cct': 'c08'}[kind]
                jobs.append({'profile': prof, 'seed': vseed * 1000003 + 710000 + i, 'fault': (kind, rr.randint(1, 12), rr.choice(['neg', 'combneg'])),
                             'label': ('C02', 'negative_duration_accepted')})
    runs, cap, wall, ties = profiles.BUDGET[tier]
    timeout = 900 if tier == 'quick' else 6 * 3600
    results, failures = runner.run_shards('ciwmon.tracecheck', jobs, {'prop': prop, 'tier': tier}, timeout)
    agg = collections.Counter(); kinds = collections.Counter(); evtypes = collections.Counter()
    status = collections.Counter(); tainted = collections.Counter(); states = set()
    sigs = set(); nontrivial = 0; pairs = collections.Counter(); evaluated = 0; skipped = 0
    viol_paths = []; harness_errors = []; crashes = collections.Counter(); samples = []
    ties_n = 0; ind_ties = 0; tie_choices = 0; events = 0
    seen_viol = set()
    known_lines = set()
    softk = collections.Counter()
    pairs_gen = collections.Counter()
    oracle_timeouts = 0
    for r in results:
        if 'harness_error' in r:
            harness_errors.append(r['harness_error'][-300:]); continue
        if r.get('skipped'):
            skipped += 1; continue
        if r.get('fault'):
            agg[prop + '.fault_runs'] += 1
            if r['injected']: agg[prop + '.faults_injected'] += 1
            if r['injected'] and not r['viol']: agg[prop + '.faults_rejected_with_ValueError'] += 1
            for (p, code, det) in r['viol']:
                viol_paths.append(runner.write_replay(prop, code, {'property': prop, 'code': code, 'witness': det, 'spec': r.get('spec'), 'job': r['job'], 'tier': tier}))
            continue
        evaluated += 1
        status[r['status']] += 1
        events += r['events_judged']
        for k, v in r['counters'].items(): agg[k] += v
        if r.get('explored_scripts'):
            agg['tie_scripts_explored'] += r['explored_scripts']; agg['tie_exploration_scenarios'] += 1
            if r.get('unexplored_left') == 0: agg['tie_exploration_exhausted_scenarios'] += 1
        for k, v in r['kinds'].items(): kinds[k] += v
        for k, v in r['evtypes'].items(): evtypes[k] += v
        states.update(r['states'])
        ties_n += r['ties']; ind_ties += r['ind_ties']; tie_choices += r['tie_choices']
        if r['taint']:
            tainted[r['taint']] += 1
        for kid in r.get('soft', []):
            if prop in taint.open_findings().get(kid, {}).get('properties', []): softk[kid] += 1
        if r['status'] == 'crash' and not r['taint']:
            crashes[repr(r['crash'])] += 1
        fired = any(decide_value(r, k) > 0 for k in deciding)
        fs_ = r['features']
        for i in range(len(fs_)):
            for j in range(i + 1, len(fs_)):
                pairs_gen[(fs_[i], fs_[j])] += 1
        if fired:
            if r['sig'] not in sigs:
                sigs.add(r['sig']); nontrivial += 1
            fs = r['features']
            for i in range(len(fs)):
                for j in range(i + 1, len(fs)):
                    pairs[(fs[i], fs[j])] += 1
            if len(samples) < 4: samples.append(r['sample'])
        for (p, code, det) in r['viol']:
            key = (code, r['job']['profile'], r['job']['seed'])
            if key in seen_viol: continue
            seen_viol.add(key)
            payload = {'property': prop, 'code': code, 'witness': det, 'spec': r.get('spec'), 'tier': tier,
                       'taint': r['taint'], 'status': r['status']}
            viol_paths.append(runner.write_replay(prop, code, payload))
        for (p, msg) in r['oracle_errors']:
            if msg == 'ORACLE_TIMEOUT':
                oracle_timeouts += 1     # that run is inconclusive (counted), the check is not
            else:
                harness_errors.append('%s %s seed=%s %s' % (p, r['job']['profile'], r['job']['seed'], msg[-300:]))
    if prop == 'C09' and replay is None:
        # routing choices pooled over all runs: position j of a probabilistic router's list is taken with its declared probability
        for j in range(6):
            S_, V_ = agg.get('C09.agg.S%d' % j, 0.0), agg.get('C09.agg.V%d' % j, 0.0)
            if V_ > 25:
                agg['C09.pooled_frequency_tests'] += 1
                z = S_ / V_ ** 0.5
                if abs(z) > 6.0:
                    viol_paths.append(runner.write_replay(prop, 'pooled_choice_frequency_far_from_probability',
                                      {'property': prop, 'code': 'pooled_choice_frequency_far_from_probability', 'tier': tier, 'spec': None,
                                       'witness': {'position_in_router_list': j, 'sum_observed_minus_expected': S_, 'variance': V_, 'z': z, 'runs': evaluated}}))
    pooled = []
    if prop == 'C09': pooled = [('class_change_position_%d' % j, 'C09.agg.CS%d' % j, 'C09.agg.CV%d' % j) for j in range(3)]
    if prop == 'C13': pooled = [('baulking', 'C13.agg.S', 'C13.agg.V')]
    for label, ks, kv in (pooled if replay is None else []):
        S_, V_ = agg.get(ks, 0.0), agg.get(kv, 0.0)
        if V_ > 25:
            agg[prop + '.pooled_frequency_tests'] += 1
            z = S_ / V_ ** 0.5
            if abs(z) > 6.0:
                viol_paths.append(runner.write_replay(prop, 'pooled_frequency_far_from_probability',
                                  {'property': prop, 'code': 'pooled_frequency_far_from_probability', 'tier': tier, 'spec': None,
                                   'witness': {'what': label, 'sum_observed_minus_expected': S_, 'variance': V_, 'z': z, 'runs': evaluated}}))
    open_k = taint.open_findings()
    for kid, n in tainted.items():
        if prop in open_k[kid]['properties']:
            known_lines.add('%s runs_cut=%d %s' % (kid, n, open_k[kid]['trigger']))
    for kid, n in softk.items():
        known_lines.add('%s runs_affected=%d %s' % (kid, n, open_k[kid]['trigger']))
    total_deciding = sum(agg.get(k, 0) if not k.startswith('kinds.') else kinds.get(k[6:], 0) for k in deciding)
    inconclusive = None
    if replay is None:
        if failures: inconclusive = 'shard_failures:' + repr(failures)[:300]
        elif harness_errors: inconclusive = 'harness_errors:' + harness_errors[0][:300]
        elif evaluated == 0: inconclusive = 'no_runs_in_scope'
        elif oracle_timeouts > max(3, evaluated // 50): inconclusive = 'oracle_timeouts:%d' % oracle_timeouts
        elif total_deciding == 0: inconclusive = 'deciding_monitor_never_evaluated(%s)' % ','.join(deciding)
        elif status['ok'] + status['cap'] == 0: inconclusive = 'no_run_completed'
    if replay:
        for r in results:
            print(json.dumps({k: r.get(k) for k in ('status', 'crash', 'taint', 'viol', 'oracle_errors', 'harness_error')}, default=str)[:3000])
    top_pairs = len(pairs)
    coverage = dict(
        evaluations=evaluated, distinct_nontrivial=nontrivial,
        rule=("generated network specs (profiles %s + pinned scenarios), each run under MonSim with per-instance method wrappers; "
              "a run is non-trivial when the deciding monitor of %s fired at least once in its judged prefix (%s > 0); distinct = distinct "
              "(feature set, topology signature)") % ([p for p, _ in profiles.PLANS[prop][0]], prop, ' or '.join(deciding)),
        samples=samples or [r['sample'] for r in results if 'sample' in r][:3] or ['none'],
        events=events, monitor_evaluations=dict(agg), log_entries=dict(kinds), event_types=dict(evtypes),
        distinct_states=len(states), tie_situations=ties_n, simultaneous_individual_ties=ind_ties, tie_resolutions_seen=tie_choices,
        run_status=dict(status), oracle_timeouts=oracle_timeouts, tainted_runs=dict(tainted), out_of_scope_skipped=skipped,
        untainted_crashes=dict(crashes), feature_pairs_hit=top_pairs, feature_pairs_generated=len(pairs_gen),
        feature_pairs_generated_but_monitor_never_fired=sorted('%s+%s' % k for k in pairs_gen if k not in pairs)[:25], inconclusive=bool(inconclusive),
        inconclusive_reason=inconclusive, harness_errors=harness_errors[:5], shard_failures=[repr(x)[:200] for x in failures],
        known_findings_seen=sorted(known_lines))
    if replay is None:
        runner.write_evidence(prop, tier, vseed, 'exploration', coverage, time.time() - t0, len(viol_paths),
                              ["oracles recompute capacities / timetables / routing supports from the spec, not from engine counters",
                               "built-in distributions return non-negative samples", "networks inside the documented feature compatibility (DESIGN.md §3)",
                               "runs cut at the first trigger of an open known finding are judged only before the trigger"])
    print('%s tier=%s runs=%d nontrivial_distinct=%d events=%d deciding=%d states=%d ties=%d tainted=%s status=%s wall=%.1fs' % (
        prop, tier, evaluated, nontrivial, events, total_deciding, len(states), ties_n, dict(tainted), dict(status), time.time() - t0))
    return runner.finish(prop, viol_paths, sorted(known_lines), inconclusive)


if __name__ == '__main__':
    if len(sys.argv) >= 4 and sys.argv[1] == '--shard':
        runner.shard_main(sys.argv[2:4], worker)
