"""Development tool: run ALL trace oracles over a seed range of one profile; aggregate codes / crashes."""
import sys, collections, json
from . import runner


def worker(job, extra):
    from . import core, profiles, gen, oracles
    spec = profiles.make_spec(job['profile'], job['seed'], extra['tier'])
    runs, cap, wall, ties = profiles.BUDGET[extra['tier']]
    props = extra.get('props') or list(oracles.ORACLES)
    f = gen.features(spec)
    props = [p for p in props if profiles.PLANS[p][1](spec, f)]
    res = core.evaluate(spec, props, cap=cap, wall=wall)
    res['job'] = job
    res.pop('states', None)
    return res


def main():
    profile, lo, hi = sys.argv[1], int(sys.argv[2]), int(sys.argv[3])
    tier = sys.argv[4] if len(sys.argv) > 4 else 'quick'
    props = sys.argv[5].split(',') if len(sys.argv) > 5 else None
    jobs = [{'profile': profile, 'seed': s} for s in range(lo, hi)]
    results, failures = runner.run_shards('ciwmon.devsweep', jobs, {'tier': tier, 'props': props}, 3600)
    agg = collections.defaultdict(list); crashes = collections.defaultdict(list); st = collections.Counter(); tn = collections.Counter()
    ev = 0; first = {}
    for r in results:
        if 'harness_error' in r:
            crashes[('HARNESS', r['harness_error'][-200:])].append(r['job']['seed']); continue
        st[r['status']] += 1; ev += r['events_judged']
        if r['taint']: tn[r['taint']] += 1
        if r['status'] == 'crash' and not r['taint']: crashes[tuple(r['crash'])].append(r['job']['seed'])
        for p, code, det in r['viol']:
            agg[(p, code)].append(r['job']['seed']); first.setdefault((p, code), det)
        for p, msg in r['oracle_errors']:
            agg[(p, 'ORACLE_ERR')].append(r['job']['seed']); first.setdefault((p, 'ORACLE_ERR'), msg[-400:])
    print('runs', len(results), 'events', ev, dict(st), 'taint', dict(tn), 'failures', failures)
    for k, v in sorted(agg.items()):
        print(len(v), k, sorted(v)[:8]); print('      ', str(first[k])[:300])
    print('-- untainted crashes')
    for k, v in sorted(crashes.items(), key=lambda kv: -len(kv[1])): print(len(v), k, sorted(v)[:8])


if __name__ == '__main__':
    if len(sys.argv) >= 4 and sys.argv[1] == '--shard':
        runner.shard_main(sys.argv[2:4], worker)
    else:
        main()
