#!/usr/bin/env python3
"""Print the markdown table of seeded changes and which checks caught them (from seeded/*/meta.json)."""
import json, os, glob
root = os.path.join(os.path.dirname(os.path.dirname(os.path.abspath(__file__))), 'seeded')
print('| id | change | needs | caught by (quick tier, codes) |')
print('|---|---|---|---|')
for d in sorted(glob.glob(os.path.join(root, '*', ''))):
    m = json.load(open(os.path.join(d, 'meta.json')))
    det = (m.get('detection') or {}).get('quick', {}).get('results', {})
    hits = ['%s: %s' % (p, ', '.join(v['codes'][:3])) for p, v in sorted(det.items()) if v['exit'] == 1]
    print('| %s | %s | %s | %s |' % (m['id'], m.get('what_it_changes', ''), m.get('needs_to_manifest', ''), '; '.join(hits) or '**not caught** (see text)'))
