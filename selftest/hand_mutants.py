#!/usr/bin/env python3
"""Hand-made single-edit mutants (the list planned in DESIGN §8). For each: does the repository's own suite kill it, and does
the targeted check (quick tier) catch it? Runs on scratch worktrees (CIW_REPO); /repo is never modified.
usage: hand_mutants.py [--no-tests] [id ...]"""
import sys, os, subprocess, re, shutil, json

ROOT = os.path.dirname(os.path.dirname(os.path.abspath(__file__)))
M = [
 ('H01', 'C01', 'ciw/node.py', "        self.individuals[reneging_individual.prev_priority_class].remove(reneging_individual)\n        self.number_of_individuals -= 1\n",
                               "        self.individuals[reneging_individual.prev_priority_class].remove(reneging_individual)\n"),
 ('H02', 'C05', 'ciw/node.py', "        if not reroute:\n            self.begin_service_if_possible_release(next_individual, newly_free_server)\n",
                               "        if not reroute and not next_individual.is_blocked:\n            self.begin_service_if_possible_release(next_individual, newly_free_server)\n"),
 ('H03', 'C06', 'ciw/arrival_node.py', "if (next_node.number_of_individuals >= next_node.node_capacity) or", "if (next_node.number_of_individuals > next_node.node_capacity) or"),
 ('H04', 'C07', 'ciw/node.py', "            self.blocked_queue.pop(0)\n", "            self.blocked_queue.pop()\n"),
 ('H05', 'C08', 'ciw/disciplines.py', "    return individuals[0]\n", "    return individuals[-1] if len(individuals) > 2 else individuals[0]\n"),
 ('H06', 'C08', 'ciw/node.py', "        for priority_individuals in self.individuals:\n            waiting_individuals = [ind for ind in priority_individuals if not ind.server]",
                               "        for priority_individuals in (self.individuals if self.number_of_individuals < 6 else self.individuals[::-1]):\n            waiting_individuals = [ind for ind in priority_individuals if not ind.server]"),
 ('H07', 'C09', 'ciw/routing/routing.py', "            if queue_size < shortest_queue_size:\n", "            if queue_size <= shortest_queue_size and len(shortest_queues) != 1:\n"),
 ('H08', 'C10', 'ciw/arrival_node.py', "        batch = self.batch_size(self.next_node, self.next_class)\n",
                                       "        batch = self.batch_size(self.next_node, self.next_class)\n        if batch > 3: batch = 3\n"),
 ('H09', 'C11', 'ciw/node.py', "                individual_to_preempt = max(\n", "                individual_to_preempt = min(\n"),
 ('H10', 'C12', 'ciw/schedules.py', "            yield date, values[index % num_boundaries]\n", "            yield date, values[(index + (1 if index > 7 else 0)) % num_boundaries]\n"),
 ('H11', 'C13', 'ciw/node.py', "                if (ind.reneging_date < next_renege_date) and not ind.server:\n", "                if (ind.reneging_date < next_renege_date) and not ind.server and not ind.is_blocked and ind.priority_class == 0:\n"),
 ('H12', 'C17', 'ciw/trackers/state_tracker.py', "        if blocked:\n            self.state[node.id_number - 1][1] -= 1\n        else:\n            self.state[node.id_number - 1][0] -= 1\n",
                                                 "        if blocked and destination.id_number != node.id_number:\n            self.state[node.id_number - 1][1] -= 1\n        else:\n            self.state[node.id_number - 1][0] -= 1\n"),
 ('H13', 'C18', 'ciw/deadlock/deadlock_detector.py', "            list(self.statedigraph.in_edges(str(server)))\n            + list(self.statedigraph.out_edges(str(server)))\n",
                                                     "            list(self.statedigraph.out_edges(str(server)))\n"),
 ('H14', 'C19', 'ciw/processor_sharing.py', "                share_completed = (self.ps_threshold * current_period) / max(self.last_occupancy, self.ps_threshold)\n",
                                            "                share_completed = current_period / max(self.last_occupancy, 1)\n"),
 ('H15', 'C20', 'ciw/exactnode.py', "class ExactArrivalNode(ArrivalNode):\n    \"\"\"\n    Inherits from the ArrivalNode class, implements a\n    more precise version of addition to fix discrepencies\n    with floating point numbers.\n    \"\"\"\n\n    def increment_time(self, original, increment):\n        \"\"\"\n        Increments the original time by the increment\n        \"\"\"\n        return Decimal(str(original)) + Decimal(str(increment))\n",
                                    "class ExactArrivalNode(ArrivalNode):\n    \"\"\"\n    Inherits from the ArrivalNode class, implements a\n    more precise version of addition to fix discrepencies\n    with floating point numbers.\n    \"\"\"\n\n    def increment_time(self, original, increment):\n        \"\"\"\n        Increments the original time by the increment\n        \"\"\"\n        return Decimal(str(float(original) + float(increment)))\n"),
 ('H16', 'C11', 'ciw/node.py', "            individual_to_preempt.time_left = individual_to_preempt.service_end_date - self.now\n            individual_to_preempt.service_time = self.priority_preempt\n",
                               "            individual_to_preempt.time_left = individual_to_preempt.service_end_date - individual_to_preempt.arrival_date\n            individual_to_preempt.service_time = self.priority_preempt\n"),
 ('H17', 'C03', 'ciw/node.py', "        next_individual.destination = next_node.id_number\n        if not isinf(self.c) and not self.slotted:",
                               "        next_individual.destination = next_node.id_number if not next_individual.is_blocked else self.id_number\n        if not isinf(self.c) and not self.slotted:"),
 ('H18', 'C04', 'ciw/node.py', "        for svr in all_servers:\n            if not svr.busy:\n                return svr\n", "        for svr in all_servers:\n            if not svr.busy or (svr.cust and svr.cust.is_blocked and len(all_servers) > 2):\n                return svr\n"),
 ('H19', 'C14', 'ciw/simulation.py', "        while self.current_time < max_simulation_time:\n", "        while self.current_time <= max_simulation_time:\n"),
 ('H20', 'C15', 'ciw/simulation.py', "                clss: copy.deepcopy(self.network.customer_classes[clss].service_distributions[node])\n", "                clss: self.network.customer_classes[clss].service_distributions[node]\n"),
 ('H22', 'C09', 'ciw/auxiliary.py', "    rdm_num = random.random()\n    i, p = 0, probs[0]\n", "    rdm_num = random.random() ** 1.5\n    i, p = 0, probs[0]\n"),
 ('H23', 'C13', 'ciw/arrival_node.py', "            rnd_num = random()\n", "            rnd_num = random() ** 1.3\n"),
 ('H21', 'C16', 'ciw/simulation.py', "        next_active_node = self.find_next_active_node()\n        self.current_time = next_active_node.next_event_date\n\n        if progress_bar:\n            self.progress_bar = tqdm.tqdm(total=max_simulation_time)\n",
                                      "        next_active_node = self.find_next_active_node()\n        self.current_time = next_active_node.next_event_date\n        self.statetracker.timestamp()\n        for nd in self.transitive_nodes: nd.update_next_event_date()\n        next_active_node = self.find_next_active_node()\n\n        if progress_bar:\n            self.progress_bar = tqdm.tqdm(total=max_simulation_time)\n"),
 # ---- second batch: aimed at oracle clauses that no other mutant had exercised (clause validation, tests not run) ----
 ('H30', 'C07', 'ciw/node.py', "        if next_node.number_of_individuals < next_node.node_capacity:\n            self.release(next_individual, next_node)\n",
                               "        if next_node.number_of_individuals < next_node.node_capacity - (1 if next_node.node_capacity > 2 else 0):\n            self.release(next_individual, next_node)\n"),
 ('H31', 'C07', 'ciw/node.py', "        if next_node.number_of_individuals < next_node.node_capacity:\n            self.release(next_individual, next_node)\n",
                               "        if next_node.number_of_individuals <= next_node.node_capacity:\n            self.release(next_individual, next_node)\n"),
 ('H32', 'C09', 'ciw/routing/routing.py', "        node_index = ciw.random_choice(self.destinations, self.probs)\n        return self.simulation.nodes[node_index]\n",
                                          "        node_index = ciw.random_choice(self.destinations, self.probs)\n        if ind.id_number % 9 == 0: node_index = self.destinations[0]\n        return self.simulation.nodes[node_index]\n"),
 ('H33', 'C09', 'ciw/routing/routing.py', "        next_node_index = next(self.generator)\n", "        next_node_index = next(self.generator)\n        if ind.id_number % 7 == 0: next_node_index = next(self.generator)\n"),
 ('H34', 'C09', 'ciw/routing/routing.py', "        return self.simulation.nodes[self.to]\n", "        return self.simulation.nodes[self.to if ind.id_number % 11 else -1]\n"),
 ('H35', 'C10', 'ciw/arrival_node.py', "        return original + increment\n", "        return original + increment + (1e-9 if original > 5 else 0)\n"),
 ('H36', 'C10', 'ciw/node.py', "                ind.service_end_date = self.now + ind.service_time\n                self.number_in_service += 1\n",
                               "                ind.service_end_date = self.now + ind.service_time * (1.001 if ind.id_number % 5 == 0 else 1)\n                self.number_in_service += 1\n"),
 ('H37', 'C11', 'ciw/node.py', "            least_priority = max([ind.priority_class for ind in in_service], default=individual.priority_class)\n",
                               "            least_priority = min([ind.priority_class for ind in in_service], default=individual.priority_class)\n"),
 ('H38', 'C12', 'ciw/node.py', "        if newly_free_server is not None and newly_free_server in self.servers:\n            if self.number_interrupted_individuals > 0:\n                self.begin_interrupted_individuals_service(newly_free_server)\n            else:\n                ind = self.choose_next_customer()\n                if ind is not None:\n                    self.attach_server(newly_free_server, ind)\n                    ind.service_start_date = self.now\n                    self.give_individual_a_service_time(ind)\n                    ind.service_end_date = self.increment_time(ind.service_start_date, ind.service_time)\n                    self.number_in_service += 1\n                    self.reset_class_change(ind)\n                    newly_free_server.next_end_service_date = ind.service_end_date\n",
                               "        if newly_free_server is not None and newly_free_server in self.servers:\n            if self.number_interrupted_individuals > 0:\n                self.begin_interrupted_individuals_service(newly_free_server)\n            else:\n                ind = self.choose_next_customer()\n                if ind is not None:\n                    self.attach_server(newly_free_server, ind)\n                    ind.service_start_date = self.now\n                    self.give_individual_a_service_time(ind)\n                    ind.service_end_date = self.increment_time(ind.service_start_date, ind.service_time)\n                    self.number_in_service += 1\n                    self.reset_class_change(ind)\n                    newly_free_server.next_end_service_date = ind.service_end_date\n        elif newly_free_server is not None and self.schedule is not None and not self.slotted and self.c == 0:\n            self.servers.append(newly_free_server)\n"),
 ('H39', 'C12', 'ciw/schedules.py', "            date = offset + boundaries[index % num_boundaries] + ((index) // num_boundaries * self.cyclelength)\n",
                                    "            date = offset + boundaries[index % num_boundaries] + ((index) // num_boundaries * self.cyclelength) + (0.013 if index > 4 else 0.0)\n"),
 ('H40', 'C14', 'ciw/simulation.py', "        while self.current_time < max_simulation_time:\n", "        while self.current_time < max_simulation_time - 0.5:\n"),
 ('H41', 'C17', 'ciw/trackers/state_tracker.py', "        if current_hash_state != self.history[-1][1]:\n            self.history.append([self.simulation.current_time, current_hash_state])\n",
                                                 "        if current_hash_state != self.history[-1][1] or len(self.history) % 5 == 0:\n            self.history.append([self.simulation.current_time, current_hash_state])\n"),
 ('H42', 'C02', 'ciw/simulation.py', "            self.statetracker.timestamp()\n\n            if progress_bar:\n                remaining_time = max_simulation_time - self.progress_bar.n\n                time_increment = next_active_node.next_event_date - self.current_time\n                self.progress_bar.update(min(time_increment, remaining_time))\n\n            self.current_time = next_active_node.next_event_date\n",
                                     "            self.statetracker.timestamp()\n\n            if progress_bar:\n                remaining_time = max_simulation_time - self.progress_bar.n\n                time_increment = next_active_node.next_event_date - self.current_time\n                self.progress_bar.update(min(time_increment, remaining_time))\n\n            self.current_time = next_active_node.next_event_date + (1e-7 if self.current_time > 6 and not isinstance(next_active_node.next_event_date, type(None)) and type(next_active_node.next_event_date) is float else 0)\n"),
 ('H43', 'C02', 'ciw/node.py', "            waiting_time=individual.service_start_date - individual.arrival_date,\n            service_start_date=individual.service_start_date,\n            service_time=individual.service_end_date - individual.service_start_date,\n",
                               "            waiting_time=individual.service_start_date - individual.arrival_date + (1e-6 if individual.id_number % 6 == 0 else 0),\n            service_start_date=individual.service_start_date,\n            service_time=individual.service_end_date - individual.service_start_date,\n"),
 ('H44', 'C04', 'ciw/node.py', "        for i in range(num_servers):\n", "        for i in range(num_servers + (1 if num_servers > 2 else 0)):\n"),
 ('H45', 'C01', 'ciw/exit_node.py', "        self.number_of_individuals += 1\n", "        self.number_of_individuals += 1 if next_individual.id_number % 13 else 2\n"),
 ('H46', 'C03', 'ciw/node.py', "        reneging_individual.destination = next_node.id_number\n", "        reneging_individual.destination = False\n"),
 ('H47', 'C13', 'ciw/node.py', "        self.reset_individual_attributes(reneging_individual)\n        self.simulation.statetracker.change_state_renege(self, next_node, reneging_individual, False)\n        next_node.accept(reneging_individual, completed=False)\n",
                               "        self.reset_individual_attributes(reneging_individual)\n        self.simulation.statetracker.change_state_renege(self, next_node, reneging_individual, False)\n        (self.simulation.nodes[-1] if reneging_individual.id_number % 4 == 0 else next_node).accept(reneging_individual, completed=False)\n"),
 ('H48', 'C06', 'ciw/arrival_node.py', "            self.record_rejection(next_node, next_individual)\n            self.simulation.nodes[-1].accept(next_individual, completed=False)\n",
                                       "            self.record_rejection(next_node, next_individual)\n            (self.simulation.nodes[-1] if next_individual.id_number % 3 else next_node).accept(next_individual, completed=False)\n"),
 ('H49', 'C09', 'ciw/node.py', "            individual.priority_class = self.simulation.network.priority_class_mapping[individual.customer_class]\n            self.simulation.statetracker.change_state_classchange(self, individual)\n",
                               "            individual.priority_class = self.simulation.network.priority_class_mapping[individual.previous_class]\n            self.simulation.statetracker.change_state_classchange(self, individual)\n"),
 ('H50', 'C07', 'ciw/node.py', "            time_blocked=individual.exit_date - individual.service_end_date,\n", "            time_blocked=(individual.exit_date - individual.service_end_date) * (0.5 if individual.is_blocked else 1),\n"),
 ('H51', 'C11', 'ciw/node.py', "            in_service = [s.cust for s in self.servers if not s.cust.is_blocked and not s.offduty]\n", "            in_service = [s.cust for s in self.servers if not s.offduty]\n"),
 ('H52', 'C11', 'ciw/node.py', "            in_service = [s.cust for s in self.servers if not s.cust.is_blocked and not s.offduty]\n", "            in_service = [s.cust for s in self.servers if not s.cust.is_blocked]\n"),
 ('H53', 'C11', 'ciw/node.py', "        if individual.service_time == \"resample\":\n            individual.service_time = self.get_service_time(individual)\n", "        if individual.service_time == \"resample\":\n            individual.service_time = individual.original_service_time\n"),
 ('H55', 'C17', 'ciw/trackers/state_tracker.py', "        Changes the state of the system when a customer is released.\n        \"\"\"\n        self.state -= 1\n", "        Changes the state of the system when a customer is released.\n        \"\"\"\n        self.state -= 2 if blocked else 1\n"),
 ('H56', 'C10', 'ciw/arrival_node.py', "        for _ in range(batch):\n", "        for _ in range(batch + (1 if self.number_of_individuals % 17 == 16 else 0)):\n"),
 # ---- H60+: clause validation, third batch (codes no seeded / mechanical mutant had made fire)
 ('H60', 'C02', 'ciw/node.py', "            arrival_date=self.now,\n            waiting_time=nan,\n", "            arrival_date=self.now if individual.id_number % 7 else self.now - 1,\n            waiting_time=nan,\n"),
 ('H61', 'C02', 'ciw/node.py', "            arrival_date=self.now,\n            waiting_time=nan,\n", "            arrival_date=self.now,\n            waiting_time=nan if individual.id_number % 3 else 0.0,\n"),
 ('H62', 'C02', 'ciw/node.py', "            waiting_time=individual.service_start_date - individual.arrival_date,\n            service_start_date=individual.service_start_date,\n            service_time=individual.original_service_time,\n            service_end_date=nan,\n",
        "            waiting_time=individual.service_start_date - individual.arrival_date + (1 if individual.id_number % 5 == 0 else 0),\n            service_start_date=individual.service_start_date,\n            service_time=individual.original_service_time,\n            service_end_date=0.0,\n"),
 ('H63', 'C02', 'ciw/node.py', "            service_start_date=nan,\n            service_time=nan,\n            service_end_date=nan,\n            time_blocked=nan,\n            exit_date=individual.exit_date,\n", "            service_start_date=nan,\n            service_time=0.0,\n            service_end_date=nan,\n            time_blocked=nan,\n            exit_date=individual.exit_date,\n"),
 ('H64', 'C01', 'ciw/arrival_node.py', "            self.number_of_individuals += 1\n            self.number_of_individuals_per_class[self.next_class] += 1\n", "            self.number_of_individuals += 1\n            self.number_of_individuals_per_class[self.next_class] += 1 if self.number_of_individuals % 9 else 2\n"),
 ('H65', 'C09', 'ciw/routing/routing.py', "        Chooses the exit node with probability 1.\n        \"\"\"\n        return self.simulation.nodes[-1]\n", "        Chooses the exit node with probability 1.\n        \"\"\"\n        return self.simulation.nodes[-1] if ind.id_number % 6 else self.simulation.nodes[1]\n"),
 ('H66', 'C10', 'ciw/arrival_node.py', "        self.event_dates_dict[self.next_node][self.next_class] = self.increment_time(\n            self.event_dates_dict[self.next_node][self.next_class],\n            self.inter_arrival(self.next_node, self.next_class),\n        )\n",
        "        self.event_dates_dict[self.next_node][self.next_class] = self.increment_time(\n            self.event_dates_dict[self.next_node][self.next_class],\n            self.inter_arrival(self.next_node, self.next_class),\n        )\n        if self.number_of_individuals % 11 == 10:\n            self.inter_arrival(self.next_node, self.next_class)\n"),
 ('H67', 'C13', 'ciw/arrival_node.py', "                self.record_baulk(next_node, next_individual)\n                self.simulation.nodes[-1].accept(next_individual, completed=False)\n", "                self.record_baulk(next_node, next_individual)\n                if next_individual.id_number % 4: self.simulation.nodes[-1].accept(next_individual, completed=False)\n"),
 ('H68', 'C18', 'ciw/simulation.py', "            state: self.nodes[1].increment_time(time_of_deadlock, -self.times_dictionary[state])\n", "            state: self.nodes[1].increment_time(self.times_dictionary[state], -time_of_deadlock)\n"),
 ('H69', 'C18', 'ciw/simulation.py', "            if current_state not in self.times_dictionary:\n                self.times_dictionary[current_state] = self.current_time\n", "            if current_state not in self.times_dictionary or len(self.times_dictionary) % 5 == 4:\n                self.times_dictionary[current_state] = self.current_time\n"),
 ('H70', 'C14', 'ciw/simulation.py', "            self.current_time = next_active_node.next_event_date\n\n        self.wrap_up_servers(max_simulation_time)\n", "            self.current_time = next_active_node.next_event_date\n\n        if 3 < max_simulation_time and self.current_time < max_simulation_time + 0.3:\n            next_active_node = self.event_and_return_nextnode(next_active_node)\n        self.wrap_up_servers(max_simulation_time)\n"),
 ('H71', 'C19', 'ciw/processor_sharing.py', "        if self.number_of_individuals <= self.ps_capacity:\n            next_individual.service_start_date = self.now\n", "        if self.number_of_individuals <= self.ps_capacity + (1 if next_individual.id_number % 5 == 0 else 0):\n            next_individual.service_start_date = self.now\n"),
 ('H72', 'C20', 'ciw/exactnode.py', "        return Decimal(str(original)) + Decimal(str(increment))\n\n    def get_service_time(self, ind):", "        return Decimal(str(original)) + Decimal(str(increment)) + (Decimal('1e-7') if Decimal(str(original)) > 20 else 0)\n\n    def get_service_time(self, ind):"),
 ('H73', 'C11', 'ciw/node.py', "                self.preempt(individual_to_preempt, individual)\n", "                self.preempt(individual_to_preempt, individual)\n            elif individual.priority_class == least_priority and individual.id_number % 9 == 0 and in_service:\n                self.preempt(in_service[0], individual)\n"),
 ('H74', 'C04', 'ciw/node.py', "        server.cust = False\n        server.busy = False\n", "        server.cust = False\n        server.busy = (server.id_number == 2 and individual.id_number % 7 == 0)\n"),
 ('H75', 'C07', 'ciw/node.py', "        individual.is_blocked = True\n        self.simulation.statetracker.change_state_block(self, next_node, individual)\n", "        individual.is_blocked = True\n        if individual.id_number % 5 == 0 and individual.server: self.detatch_server(individual.server, individual)\n        self.simulation.statetracker.change_state_block(self, next_node, individual)\n"),
 ('H76', 'C10', 'ciw/arrival_node.py', "        batch = self.simulation.batch_sizes[nd][clss]._sample(t=self.simulation.current_time)\n", "        batch = self.simulation.batch_sizes[nd][clss]._sample()\n"),
 ('H77', 'C10', 'ciw/node.py', "        return self.simulation.service_times[self.id_number][ind.customer_class]._sample(t=self.now, ind=ind)\n", "        return self.simulation.service_times[self.id_number][ind.customer_class]._sample(t=self.simulation.current_time, ind=ind)\n"),
 ('H78', 'C10', 'ciw/exactnode.py', "                ]._sample(self.simulation.current_time, ind=ind)\n", "                ]._sample(self.simulation.current_time)\n"),
 ('H79', 'C13', 'ciw/node.py', "        return self.increment_time(self.now, dist._sample(t=self.now, ind=ind))\n", "        return self.increment_time(self.now, dist._sample(t=self.now))\n"),
]

def sh(cmd, cwd=None, env=None, timeout=3600):
    p = subprocess.run(cmd, shell=True, cwd=cwd, capture_output=True, text=True, timeout=timeout, env=env)
    return p.returncode, p.stdout + p.stderr


def main():
    args = sys.argv[1:]
    notests = '--no-tests' in args
    want = [a for a in args if not a.startswith('--')]
    out = {}
    for mid, prop, f, old, new in M:
        if want and mid not in want: continue
        wt = '/tmp/hm_%s' % mid
        sh('git -C /repo worktree remove --force %s' % wt)
        sh('git -C /repo worktree add -q --detach %s HEAD' % wt)
        try:
            p = os.path.join(wt, f); s = open(p).read()
            if s.count(old) != 1:
                print(mid, 'ANCHOR NOT FOUND', s.count(old)); continue
            open(p, 'w').write(s.replace(old, new))
            env = dict(os.environ, PYTHONPATH=wt, PYTHONDONTWRITEBYTECODE='1')
            tests = 'skipped'
            if not notests:
                rc, o = sh('/venv/bin/python -m pytest -q -p no:cacheprovider --timeout=900 -x 2>&1 | tail -1', cwd=wt, env=env)
                tests = 'survives the 330 tests' if (' passed' in o and 'failed' not in o) else 'killed by the tests'
            rc, o = sh('./check %s' % prop, cwd=ROOT, env=dict(os.environ, CIW_REPO=wt, VERIF_NO_EVIDENCE='1'))
            codes = sorted(set(re.findall(r'replay=\S*/%s-(.+?)-[0-9a-f]{10}\.json' % prop, o)))
            print(mid, prop, tests, '| check exit', rc, codes[:4])
            out[mid] = {'property': prop, 'file': f, 'tests': tests, 'check_exit': rc, 'codes': codes}
        finally:
            sh('git -C /repo worktree remove --force %s' % wt); shutil.rmtree(wt, ignore_errors=True)
    path = os.path.join(ROOT, 'selftest', 'hand_mutants_result.json')
    old = json.load(open(path)) if os.path.exists(path) else {}
    old.update(out)
    json.dump(old, open(path, 'w'), indent=1)


if __name__ == '__main__':
    main()
