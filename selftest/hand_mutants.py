#!/usr/bin/env python3
"""Hand-made single-edit mutants (the list planned in DESIGN §8). For each: does the repository's own suite kill it, and does
the targeted check (quick tier) catch it? Runs on scratch worktrees (CIW_REPO); /repo is never modified.
usage: hand_mutants.py [--no-tests] [id ...]"""
import sys, os, subprocess, re, shutil, json

ROOT = os.path.dirname(os.path.dirname(os.path.abspath(__file__)))
M = [
 ('H01', 'C01', 'ciw/node.py', "        self.individuals[reneging_individual.prev_priority_class].remove(reneging_individual)\n        self.number_of_individuals -= 1\n",
                               "        self.individuals[reneging_individual.prev_priority_class].remove(reneging_individual)\n"),
 ('H02', 'C05', 'ciw/node.py', "        if not reroute:\n            self.begin_service_if_possible_release(next_individual, newly_free_server)\n",
                               "        if not reroute and not next_individual.is_blocked:\n            self.begin_service_if_possible_release(next_individual, newly_free_server)\n"),
 ('H03', 'C06', 'ciw/arrival_node.py', "if (next_node.number_of_individuals >= next_node.node_capacity) or", "if (next_node.number_of_individuals > next_node.node_capacity) or"),
 ('H04', 'C07', 'ciw/node.py', "            self.blocked_queue.pop(0)\n", "            self.blocked_queue.pop()\n"),
 ('H05', 'C08', 'ciw/disciplines.py', "    return individuals[0]\n", "    return individuals[-1] if len(individuals) > 2 else individuals[0]\n"),
 ('H06', 'C08', 'ciw/node.py', "        for priority_individuals in self.individuals:\n            waiting_individuals = [ind for ind in priority_individuals if not ind.server]",
                               "        for priority_individuals in (self.individuals if self.number_of_individuals < 6 else self.individuals[::-1]):\n            waiting_individuals = [ind for ind in priority_individuals if not ind.server]"),
 ('H07', 'C09', 'ciw/routing/routing.py', "            if queue_size < shortest_queue_size:\n", "            if queue_size <= shortest_queue_size and len(shortest_queues) != 1:\n"),
 ('H08', 'C10', 'ciw/arrival_node.py', "        batch = self.batch_size(self.next_node, self.next_class)\n",
                                       "        batch = self.batch_size(self.next_node, self.next_class)\n        if batch > 3: batch = 3\n"),
 ('H09', 'C11', 'ciw/node.py', "                individual_to_preempt = max(\n", "                individual_to_preempt = min(\n"),
 ('H10', 'C12', 'ciw/schedules.py', "            yield date, values[index % num_boundaries]\n", "            yield date, values[(index + (1 if index > 7 else 0)) % num_boundaries]\n"),
 ('H11', 'C13', 'ciw/node.py', "                if (ind.reneging_date < next_renege_date) and not ind.server:\n", "                if (ind.reneging_date < next_renege_date) and not ind.server and not ind.is_blocked and ind.priority_class == 0:\n"),
 ('H12', 'C17', 'ciw/trackers/state_tracker.py', "        if blocked:\n            self.state[node.id_number - 1][1] -= 1\n        else:\n            self.state[node.id_number - 1][0] -= 1\n",
                                                 "        if blocked and destination.id_number != node.id_number:\n            self.state[node.id_number - 1][1] -= 1\n        else:\n            self.state[node.id_number - 1][0] -= 1\n"),
 ('H13', 'C18', 'ciw/deadlock/deadlock_detector.py', "            list(self.statedigraph.in_edges(str(server)))\n            + list(self.statedigraph.out_edges(str(server)))\n",
                                                     "            list(self.statedigraph.out_edges(str(server)))\n"),
 ('H14', 'C19', 'ciw/processor_sharing.py', "                share_completed = (self.ps_threshold * current_period) / max(self.last_occupancy, self.ps_threshold)\n",
                                            "                share_completed = current_period / max(self.last_occupancy, 1)\n"),
 ('H15', 'C20', 'ciw/exactnode.py', "class ExactArrivalNode(ArrivalNode):\n    \"\"\"\n    Inherits from the ArrivalNode class, implements a\n    more precise version of addition to fix discrepencies\n    with floating point numbers.\n    \"\"\"\n\n    def increment_time(self, original, increment):\n        \"\"\"\n        Increments the original time by the increment\n        \"\"\"\n        return Decimal(str(original)) + Decimal(str(increment))\n",
                                    "class ExactArrivalNode(ArrivalNode):\n    \"\"\"\n    Inherits from the ArrivalNode class, implements a\n    more precise version of addition to fix discrepencies\n    with floating point numbers.\n    \"\"\"\n\n    def increment_time(self, original, increment):\n        \"\"\"\n        Increments the original time by the increment\n        \"\"\"\n        return Decimal(str(float(original) + float(increment)))\n"),
 ('H16', 'C11', 'ciw/node.py', "            individual_to_preempt.time_left = individual_to_preempt.service_end_date - self.now\n            individual_to_preempt.service_time = self.priority_preempt\n",
                               "            individual_to_preempt.time_left = individual_to_preempt.service_end_date - individual_to_preempt.arrival_date\n            individual_to_preempt.service_time = self.priority_preempt\n"),
 ('H17', 'C03', 'ciw/node.py', "        next_individual.destination = next_node.id_number\n        if not isinf(self.c) and not self.slotted:",
                               "        next_individual.destination = next_node.id_number if not next_individual.is_blocked else self.id_number\n        if not isinf(self.c) and not self.slotted:"),
 ('H18', 'C04', 'ciw/node.py', "        for svr in all_servers:\n            if not svr.busy:\n                return svr\n", "        for svr in all_servers:\n            if not svr.busy or (svr.cust and svr.cust.is_blocked and len(all_servers) > 2):\n                return svr\n"),
 ('H19', 'C14', 'ciw/simulation.py', "        while self.current_time < max_simulation_time:\n", "        while self.current_time <= max_simulation_time:\n"),
 ('H20', 'C15', 'ciw/simulation.py', "                clss: copy.deepcopy(self.network.customer_classes[clss].service_distributions[node])\n", "                clss: self.network.customer_classes[clss].service_distributions[node]\n"),
 ('H22', 'C09', 'ciw/auxiliary.py', "    rdm_num = random.random()\n    i, p = 0, probs[0]\n", "    rdm_num = random.random() ** 1.5\n    i, p = 0, probs[0]\n"),
 ('H23', 'C13', 'ciw/arrival_node.py', "            rnd_num = random()\n", "            rnd_num = random() ** 1.3\n"),
 ('H21', 'C16', 'ciw/simulation.py', "        next_active_node = self.find_next_active_node()\n        self.current_time = next_active_node.next_event_date\n\n        if progress_bar:\n            self.progress_bar = tqdm.tqdm(total=max_simulation_time)\n",
                                      "        next_active_node = self.find_next_active_node()\n        self.current_time = next_active_node.next_event_date\n        self.statetracker.timestamp()\n        for nd in self.transitive_nodes: nd.update_next_event_date()\n        next_active_node = self.find_next_active_node()\n\n        if progress_bar:\n            self.progress_bar = tqdm.tqdm(total=max_simulation_time)\n"),
]


def sh(cmd, cwd=None, env=None, timeout=3600):
    p = subprocess.run(cmd, shell=True, cwd=cwd, capture_output=True, text=True, timeout=timeout, env=env)
    return p.returncode, p.stdout + p.stderr


def main():
    args = sys.argv[1:]
    notests = '--no-tests' in args
    want = [a for a in args if not a.startswith('--')]
    out = {}
    for mid, prop, f, old, new in M:
        if want and mid not in want: continue
        wt = '/tmp/hm_%s' % mid
        sh('git -C /repo worktree remove --force %s' % wt)
        sh('git -C /repo worktree add -q --detach %s HEAD' % wt)
        try:
            p = os.path.join(wt, f); s = open(p).read()
            if s.count(old) != 1:
                print(mid, 'ANCHOR NOT FOUND', s.count(old)); continue
            open(p, 'w').write(s.replace(old, new))
            env = dict(os.environ, PYTHONPATH=wt, PYTHONDONTWRITEBYTECODE='1')
            tests = 'skipped'
            if not notests:
                rc, o = sh('/venv/bin/python -m pytest -q -p no:cacheprovider --timeout=900 -x 2>&1 | tail -1', cwd=wt, env=env)
                tests = 'survives the 330 tests' if (' passed' in o and 'failed' not in o) else 'killed by the tests'
            rc, o = sh('./check %s' % prop, cwd=ROOT, env=dict(os.environ, CIW_REPO=wt, VERIF_NO_EVIDENCE='1'))
            codes = sorted(set(re.findall(r'replay=\S*/%s-(.+?)-[0-9a-f]{10}\.json' % prop, o)))
            print(mid, prop, tests, '| check exit', rc, codes[:4])
            out[mid] = {'property': prop, 'file': f, 'tests': tests, 'check_exit': rc, 'codes': codes}
        finally:
            sh('git -C /repo worktree remove --force %s' % wt); shutil.rmtree(wt, ignore_errors=True)
    path = os.path.join(ROOT, 'selftest', 'hand_mutants_result.json')
    old = json.load(open(path)) if os.path.exists(path) else {}
    old.update(out)
    json.dump(old, open(path, 'w'), indent=1)


if __name__ == '__main__':
    main()
