#!/usr/bin/env python3
"""Behaviour-preserving refactors of CiwPython/Ciw: every check must stay free of VIOLATION lines on them (exit 0, or exit 3
'inconclusive' when a refactor bypasses a method the monitors hook). Runs on scratch worktrees (CIW_REPO).
usage: refactors.py [id ...]"""
import sys, os, subprocess, re, shutil, json

ROOT = os.path.dirname(os.path.dirname(os.path.abspath(__file__)))
ALL = os.environ.get('REFACTOR_CHECKS', '').split(',') if os.environ.get('REFACTOR_CHECKS') else ['C%02d' % i for i in range(1, 21)]
R = [
 # attach inlined on the arrival path (the hook of the deadlock detector kept): bypasses the monitors' attach wrapper
 ('R1', 'ciw/node.py', "                if isinf(self.c) is False:\n                    self.attach_server(free_server, ind)\n",
        "                if isinf(self.c) is False:\n                    free_server.cust = ind\n                    free_server.busy = True\n                    ind.server = free_server\n                    self.simulation.deadlock_detector.action_at_attach_server(self, free_server, ind)\n"),
 # the tracker is told about an arrival before the service start logic instead of after it
 ('R2', 'ciw/node.py', "        self.number_of_individuals += 1\n        self.begin_service_if_possible_accept(next_individual)\n        self.simulation.statetracker.change_state_accept(self, next_individual)\n",
        "        self.number_of_individuals += 1\n        self.simulation.statetracker.change_state_accept(self, next_individual)\n        self.begin_service_if_possible_accept(next_individual)\n"),
 # flatten always (no single-class shortcut), del instead of pop
 ('R3', 'ciw/node.py', "        if self.simulation.number_of_priority_classes == 1:\n            return self.individuals[0]\n        return flatten_list(self.individuals)\n",
        "        return [ind for lst in self.individuals for ind in lst]\n"),
 ('R4', 'ciw/node.py', "            self.blocked_queue.pop(0)\n", "            del self.blocked_queue[0]\n"),
 # service record written by an inlined copy of write_individual_record's call (renamed helper): bypasses the record wrapper
 ('R5', 'ciw/node.py', "        if not reroute:\n            self.write_individual_record(next_individual)\n        newly_free_server = None\n",
        "        if not reroute:\n            Node.write_individual_record(self, next_individual)\n        newly_free_server = None\n"),
 # next active node found through a sort (same tie set, same random draw)
 ('R6', 'ciw/simulation.py', "        mindate = float(\"Inf\")\n        next_active_nodes = []\n        for nd in self.active_nodes:\n            if nd.next_event_date < mindate:\n                mindate = nd.next_event_date\n                next_active_nodes = [nd]\n            elif nd.next_event_date == mindate:\n                next_active_nodes.append(nd)\n",
        "        mindate = min(nd.next_event_date for nd in self.active_nodes)\n        next_active_nodes = [nd for nd in self.active_nodes if nd.next_event_date == mindate]\n"),
]


def sh(cmd, cwd=None, env=None, timeout=3600):
    p = subprocess.run(cmd, shell=True, cwd=cwd, capture_output=True, text=True, timeout=timeout, env=env)
    return p.returncode, p.stdout + p.stderr


def main():
    want = sys.argv[1:]
    out = {}
    for rid, f, old, new in R:
        if want and rid not in want: continue
        wt = '/tmp/rf_%s' % rid
        sh('git -C /repo worktree remove --force %s' % wt)
        sh('git -C /repo worktree add -q --detach %s HEAD' % wt)
        try:
            p = os.path.join(wt, f); s = open(p).read()
            if s.count(old) != 1:
                print(rid, 'ANCHOR NOT FOUND', s.count(old)); continue
            open(p, 'w').write(s.replace(old, new))
            rc, o = sh('/venv/bin/python -m pytest -q -p no:cacheprovider --timeout=900 -x 2>&1 | tail -1', cwd=wt, env=dict(os.environ, PYTHONPATH=wt))
            res = {'tests': o.strip()[-40:]}
            for prop in ALL:
                rc, o = sh('./check %s' % prop, cwd=ROOT, env=dict(os.environ, CIW_REPO=wt, VERIF_NO_EVIDENCE='1'))
                res[prop] = rc
                if rc == 1:
                    print(rid, prop, 'FALSE ALARM', re.findall(r'replay=\S+', o)[:2])
            print(rid, res['tests'], {k: v for k, v in res.items() if k != 'tests' and v != 0})
            out[rid] = res
        finally:
            sh('git -C /repo worktree remove --force %s' % wt); shutil.rmtree(wt, ignore_errors=True)
    path = os.path.join(ROOT, 'selftest', 'refactors_result.json')
    old = json.load(open(path)) if os.path.exists(path) else {}
    old.update(out)
    json.dump(old, open(path, 'w'), indent=1)


if __name__ == '__main__':
    main()
