#!/usr/bin/env python3
"""Render known_findings.json as the plain line format (one line per finding and property)."""
import json, os
root = os.path.dirname(os.path.dirname(os.path.abspath(__file__)))
d = json.load(open(os.path.join(root, 'known_findings.json')))
out = ["# generated from known_findings.json by selftest/known_findings_txt.py - edit the JSON, not this file",
       "# open findings: a check prints 'KNOWN-FINDING: property=<id> <finding> ...' for them and exits 0; fixed entries suppress nothing", ""]
for f in d['findings']:
    for p in f['properties']:
        if f['status'] == 'open':
            out.append('known-finding: property=%s %s trigger: %s | %s' % (p, f['id'], f['trigger'], f['mechanism']))
        else:
            out.append('fixed: property=%s %s %s (%s)' % (p, f['commit'], f['mechanism'], f['id']))
open(os.path.join(root, 'KNOWN_FINDINGS.txt'), 'w').write('\n'.join(out) + '\n')
print(len(out) - 3, 'lines')
