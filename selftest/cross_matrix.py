#!/usr/bin/env python3
"""Which trace oracles fire on which seeded change: one shared workload (profiles generic + lattice + the c-profiles most mutants need)
judged by ALL trace oracles at once (ciwmon.devsweep), per seeded change, on a scratch worktree. Result -> seeded/<id>/meta.json
['cross_detection'] and selftest/cross_matrix.json. usage: cross_matrix.py [ids...]"""
import sys, os, subprocess, re, json, shutil, ast
ROOT = os.path.dirname(os.path.dirname(os.path.abspath(__file__)))
WORK = [('generic', 0, 400), ('lattice', 0, 200), ('c12', 0, 150), ('c13', 0, 150), ('c09jsq', 0, 100), ('c02ps', 0, 100), ('c06', 0, 100), ('c17ncm', 0, 100)]


def sh(cmd, cwd=None, env=None, timeout=3600):
    p = subprocess.run(cmd, shell=True, cwd=cwd, capture_output=True, text=True, timeout=timeout, env=env)
    return p.returncode, p.stdout + p.stderr


def main():
    ids = sys.argv[1:] or sorted(os.listdir(os.path.join(ROOT, 'seeded')))
    allres = {}
    path = os.path.join(ROOT, 'selftest', 'cross_matrix.json')
    if os.path.exists(path): allres = json.load(open(path))
    for sid in ids:
        d = os.path.join(ROOT, 'seeded', sid)
        wt = '/tmp/cm_%s' % sid
        sh('git -C /repo worktree remove --force %s' % wt)
        sh('git -C /repo worktree add -q --detach %s HEAD' % wt)
        try:
            rc, o = sh('git apply --whitespace=nowarn %s' % os.path.join(d, 'patch.diff'), cwd=wt)
            if rc != 0:
                print(sid, 'PATCH DOES NOT APPLY'); continue
            fired = {}
            crashes = 0
            env = dict(os.environ, CIW_REPO=wt, PYTHONPATH=wt + ':' + ROOT, PYTHONHASHSEED='0', PYTHONDONTWRITEBYTECODE='1')
            for prof, lo, hi in WORK:
                rc, o = sh('/venv/bin/python -B -m ciwmon.devsweep %s %d %d quick' % (prof, lo, hi), cwd=ROOT, env=env)
                for m in re.finditer(r"^(\d+) \('(C\d\d)', '([^']+)'\)", o, re.M):
                    if m.group(3) == 'ORACLE_ERR': continue
                    fired.setdefault(m.group(2), set()).add(m.group(3))
                sec = o.split('-- untainted crashes')[-1]
                crashes += len(re.findall(r"^\d+ \(", sec, re.M))
            res = {p: sorted(c) for p, c in sorted(fired.items())}
            if crashes: res['C14'] = sorted(set(res.get('C14', [])) | {'untainted_crash'})
            print(sid, {p: c[:2] for p, c in res.items()})
            m = json.load(open(os.path.join(d, 'meta.json'))); m['cross_detection'] = res
            json.dump(m, open(os.path.join(d, 'meta.json'), 'w'), indent=1)
            allres[sid] = res
            json.dump(allres, open(path, 'w'), indent=1)
        finally:
            sh('git -C /repo worktree remove --force %s' % wt); shutil.rmtree(wt, ignore_errors=True)


if __name__ == '__main__':
    main()
