#!/bin/sh
# usage: thorough_some.sh <seed> <check> [<check> ...]  -- thorough tier of the named checks on the unchanged tree; prints anything not HELD
cd "$(dirname "$0")/.."
S=$1; shift
for c in "$@"; do
  out=$(VERIF_SEED=$S VERIF_NO_EVIDENCE=1 ./check $c --tier thorough 2>&1); rc=$?
  if [ $rc -ne 0 ]; then echo "seed=$S $c rc=$rc"; echo "$out" | grep -v KNOWN | tail -4 | cut -c1-300; fi
  echo "$c done"
done
