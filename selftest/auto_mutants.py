#!/usr/bin/env python3
"""Mechanical mutation testing of the checks (a calibration tool, not a manifest check).

1. generate:  AST-located single-token mutants of /repo/ciw/**/*.py (tests excluded): comparison operators, and/or, dropped `not`,
              +/- swaps, True/False, += k changes, a deleted expression statement (a call whose value is discarded).
2. filter:    each mutant lives in a scratch copy of the package under /tmp/am/<id> (removed afterwards); the repository's own 330
              tests are run on it; only mutants the tests do NOT notice ("survivors") go on.
3. detect:    the quick checks are run against the survivor (CIW_REPO=<copy>, VERIF_NO_EVIDENCE=1) in a fixed order until one
              reports a VIOLATION (exit 1). A survivor no check reports is either an equivalent mutant or a gap: read it.

usage: auto_mutants.py gen  <n> <seed>            -> selftest/auto_mutants/plan_<seed>.json
       auto_mutants.py run  <seed> [jobs]         -> selftest/auto_mutants/result_<seed>.json (resumable)
       auto_mutants.py show <seed>
"""
import ast, sys, os, json, random, subprocess, shutil, re, glob, concurrent.futures as cf

ROOT = os.path.dirname(os.path.dirname(os.path.abspath(__file__)))
HEAD = ['HEAD']
REPO = '/repo'
OUT = os.path.join(ROOT, 'selftest', 'auto_mutants')
PY = '/venv/bin/python'
ORDER = ['C01', 'C02', 'C14', 'C04', 'C05', 'C08', 'C10', 'C03', 'C07', 'C06', 'C09', 'C11', 'C12', 'C13', 'C17', 'C15', 'C16',
         'C18', 'C19', 'C20']
CMP = {ast.Lt: ('<', '<='), ast.LtE: ('<=', '<'), ast.Gt: ('>', '>='), ast.GtE: ('>=', '>'), ast.Eq: ('==', '!='),
       ast.NotEq: ('!=', '=='), ast.Is: ('is', 'is not'), ast.IsNot: ('is not', 'is')}
FILES = ['arrival_node.py', 'auxiliary.py', 'disciplines.py', 'exactnode.py', 'exit_node.py', 'individual.py', 'network.py', 'node.py',
         'processor_sharing.py', 'schedules.py', 'server.py', 'simulation.py', 'deadlock/deadlock_detector.py',
         'dists/distributions.py', 'routing/routing.py', 'trackers/state_tracker.py']


def sites(path, rel):
    src = open(path).read()
    lines = src.split('\n')
    tree = ast.parse(src)
    offs = [0]
    for l in lines: offs.append(offs[-1] + len(l) + 1)

    def pos(n, end=False):
        return offs[(n.end_lineno if end else n.lineno) - 1] + (n.end_col_offset if end else n.col_offset)
    out = []
    func = {}
    for f in ast.walk(tree):
        if isinstance(f, (ast.FunctionDef, ast.ClassDef)):
            for c in ast.walk(f):
                if hasattr(c, 'lineno'): func[id(c)] = f.name if isinstance(f, ast.FunctionDef) else func.get(id(c), f.name)
    for n in ast.walk(tree):
        fn = func.get(id(n), '')
        if fn in ('__repr__', '__str__'): continue
        if isinstance(n, ast.Compare) and len(n.ops) == 1 and type(n.ops[0]) in CMP:
            a, b = pos(n.left, True), pos(n.comparators[0])
            old, new = CMP[type(n.ops[0])]
            seg = src[a:b]
            if seg.strip() == old:
                out.append((a, b, seg.replace(old, new), 'cmp %s->%s' % (old, new), n.lineno, fn))
        elif isinstance(n, ast.BoolOp) and len(n.values) == 2:
            a, b = pos(n.values[0], True), pos(n.values[1])
            seg = src[a:b]
            old, new = ('and', 'or') if isinstance(n.op, ast.And) else ('or', 'and')
            if seg.strip() == old:
                out.append((a, b, seg.replace(old, new), 'bool %s->%s' % (old, new), n.lineno, fn))
        elif isinstance(n, ast.UnaryOp) and isinstance(n.op, ast.Not):
            a, b = pos(n), pos(n.operand)
            if src[a:b].strip() == 'not':
                out.append((a, b, '', 'drop not', n.lineno, fn))
        elif isinstance(n, ast.BinOp) and isinstance(n.op, (ast.Add, ast.Sub)):
            a, b = pos(n.left, True), pos(n.right)
            seg = src[a:b]
            old, new = ('+', '-') if isinstance(n.op, ast.Add) else ('-', '+')
            if seg.strip() == old:
                out.append((a, b, seg.replace(old, new), 'arith %s->%s' % (old, new), n.lineno, fn))
        elif isinstance(n, ast.Constant) and n.value is True or isinstance(n, ast.Constant) and n.value is False:
            a, b = pos(n), pos(n, True)
            out.append((a, b, 'False' if n.value else 'True', 'const %s' % n.value, n.lineno, fn))
        elif isinstance(n, ast.AugAssign) and isinstance(n.op, (ast.Add, ast.Sub)) and isinstance(n.value, ast.Constant) and n.value.value == 1:
            a, b = pos(n.value), pos(n.value, True)
            out.append((a, b, '0', 'augassign 1->0', n.lineno, fn))
        elif isinstance(n, ast.Expr) and isinstance(n.value, ast.Call) and n.lineno == n.end_lineno:
            a, b = pos(n), pos(n, True)
            out.append((a, b, 'pass', 'delete call', n.lineno, fn))
        elif isinstance(n, ast.If) and not n.orelse and isinstance(n.test, (ast.Compare, ast.Name, ast.Attribute, ast.UnaryOp, ast.BoolOp, ast.Call)):
            a, b = pos(n.test), pos(n.test, True)
            out.append((a, b, 'True', 'if-cond->True', n.lineno, fn))
    res = []
    for a, b, new, kind, ln, fn in out:
        res.append(dict(file=rel, a=a, b=b, new=new, kind=kind, line=ln, func=fn, old=src[a:b], text=lines[ln - 1].strip()[:120]))
    return res


def gen(n, seed):
    allm = []
    for rel in FILES:
        allm += sites(os.path.join(REPO, 'ciw', rel), rel)
    rnd = random.Random(seed)
    rnd.shuffle(allm)
    # stratify: at most n/4 from node.py, so the smaller files are represented
    picked, per = [], {}
    for m in allm:
        cap = n // 3 if m['file'] == 'node.py' else n // 6
        if per.get(m['file'], 0) >= cap: continue
        per[m['file']] = per.get(m['file'], 0) + 1
        picked.append(m)
        if len(picked) == n: break
    for k, m in enumerate(picked): m['id'] = 'M%d_%03d' % (seed, k)
    os.makedirs(OUT, exist_ok=True)
    json.dump(dict(total_sites=len(allm), repo_head=subprocess.run(['git', '-C', REPO, 'rev-parse', '--short', 'HEAD'], capture_output=True, text=True).stdout.strip(),
                   mutants=picked), open(os.path.join(OUT, 'plan_%d.json' % seed), 'w'), indent=1)
    print('sites', len(allm), 'picked', len(picked), per)


def sh(cmd, cwd=None, env=None, timeout=1800):
    try:
        p = subprocess.run(cmd, shell=True, cwd=cwd, capture_output=True, text=True, timeout=timeout, env=env)
        return p.returncode, p.stdout + p.stderr
    except subprocess.TimeoutExpired:
        return 124, 'timeout'


def make_copy(m):
    d = '/tmp/am/%s' % m['id']
    shutil.rmtree(d, ignore_errors=True)
    os.makedirs(d)
    # the plan's offsets belong to the commit it was generated at: take the package from that commit
    subprocess.run('git -C %s archive %s ciw | tar -x -C %s' % (REPO, m.get('head') or HEAD[0], d), shell=True, check=True)
    p = os.path.join(d, 'ciw', m['file'])
    s = open(p).read()
    assert s[m['a']:m['b']] == m['old'], m
    open(p, 'w').write(s[:m['a']] + m['new'] + s[m['b']:])
    return d


def test_filter(m):
    d = make_copy(m)
    try:
        env = dict(os.environ, PYTHONPATH=d, PYTHONDONTWRITEBYTECODE='1')
        rc, o = sh('timeout 600 %s -m pytest -q -x -p no:cacheprovider --timeout=120 ciw/tests 2>&1 | tail -1' % PY, cwd=d, env=env, timeout=700)
        ok = (' passed' in o) and ('failed' not in o) and ('error' not in o.lower())
        return m['id'], ok, o.strip()[-80:]
    finally:
        shutil.rmtree(d, ignore_errors=True)


def detect(m):
    d = make_copy(m)
    res = {}
    try:
        for prop in ORDER:
            rc, o = sh('./check %s' % prop, cwd=ROOT, env=dict(os.environ, CIW_REPO=d, VERIF_NO_EVIDENCE='1', VERIF_SEED='0'), timeout=1500)
            codes = sorted(set(re.findall(r'replay=\S*/%s-(.+?)-[0-9a-f]{10}\.json' % prop, o)))
            res[prop] = dict(exit=rc, codes=codes[:4])
            if rc == 1 and len(ORDER) == 20: break
    finally:
        shutil.rmtree(d, ignore_errors=True)
    return res


def run(seed, jobs):
    plan = json.load(open(os.path.join(OUT, 'plan_%d.json' % seed)))
    HEAD[0] = plan['repo_head']
    rp = os.path.join(OUT, 'result_%d.json' % seed)
    result = json.load(open(rp)) if os.path.exists(rp) else {}
    todo = [m for m in plan['mutants'] if m['id'] not in result]
    with cf.ThreadPoolExecutor(jobs) as ex:
        for mid, ok, tail in ex.map(test_filter, todo):
            result[mid] = dict(tests_pass=ok, tests_tail=tail)
            json.dump(result, open(rp, 'w'), indent=1)
    surv = [m for m in plan['mutants'] if result[m['id']]['tests_pass'] and 'detect' not in result[m['id']]]
    print('survivors of the test suite:', len([1 for m in plan['mutants'] if result[m['id']]['tests_pass']]), 'of', len(plan['mutants']), '; to detect:', len(surv))
    for m in surv:
        result[m['id']]['detect'] = detect(m)
        hit = [p for p, v in result[m['id']]['detect'].items() if v['exit'] == 1]
        print(m['id'], m['file'], m['line'], m['kind'], '|', m['text'][:70], '->', hit or 'NOT CAUGHT', flush=True)
        json.dump(result, open(rp, 'w'), indent=1)


def show(seed):
    plan = json.load(open(os.path.join(OUT, 'plan_%d.json' % seed)))
    result = json.load(open(os.path.join(OUT, 'result_%d.json' % seed)))
    n = len(plan['mutants']); surv = caught = 0
    for m in plan['mutants']:
        r = result.get(m['id'])
        if not r or not r['tests_pass'] or 'detect' not in r: continue
        surv += 1
        hit = [(p, v['codes']) for p, v in r['detect'].items() if v['exit'] == 1]
        if hit: caught += 1
        print(m['id'], '%s:%d' % (m['file'], m['line']), m['func'], '|', m['kind'], '|', m['text'][:80], '=>', hit or 'NOT CAUGHT')
    print('mutants', n, 'survive tests', surv, 'caught by a check', caught)


if __name__ == '__main__':
    cmd = sys.argv[1]
    if cmd == 'gen': gen(int(sys.argv[2]), int(sys.argv[3]))
    elif cmd == 'run': run(int(sys.argv[2]), int(sys.argv[3]) if len(sys.argv) > 3 else 8)
    elif cmd == 'show': show(int(sys.argv[2]))
    elif cmd == 'one':   # one <seed> <id> C18[,C05...]: run the named checks against one mutant of the plan
        plan = json.load(open(os.path.join(OUT, 'plan_%d.json' % int(sys.argv[2]))))
        HEAD[0] = plan['repo_head']
        m = [x for x in plan['mutants'] if x['id'] == sys.argv[3]][0]
        ORDER[:] = sys.argv[4].split(',')
        print(m['file'], m['line'], m['kind'], m['text']); print(detect(m))
