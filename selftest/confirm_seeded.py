#!/usr/bin/env python3
"""Confirm seeded changes produced by independent sub-agents and file them under /verif/seeded/<id>/.

For /tmp/sa/<PROP>/out/{a,b}.diff + demo_{a,b}.py:
  in a scratch git worktree of /repo (outside /repo and /verif): apply the diff alone, run the repository's
  330 tests (must pass), run the demonstration (must fail), undo, run the demonstration (must pass).
Only then: /verif/seeded/<PROP>-<a|b>/{patch.diff, demo.py, meta.json}.
usage: confirm_seeded.py C01 C02 ...
"""
import sys, os, subprocess, json, shutil, re

PY = '/venv/bin/python'


def sh(cmd, cwd=None, timeout=1200, env=None):
    p = subprocess.run(cmd, shell=True, cwd=cwd, capture_output=True, text=True, timeout=timeout, env=env)
    return p.returncode, (p.stdout + p.stderr)


def main():
    out_root = os.path.join(os.path.dirname(os.path.dirname(os.path.abspath(__file__))), 'seeded')
    os.makedirs(out_root, exist_ok=True)
    args = sys.argv[1:]
    root = '/tmp/sa'; names = {'a': 'a', 'b': 'b'}
    if '--round2' in args:
        args.remove('--round2'); root = '/tmp/sb'; names = {'a': 'c', 'b': 'd'}
    if '--round3' in args:
        args.remove('--round3'); root = '/tmp/sc'; names = {'a': 'e', 'b': 'f'}
    if '--round4' in args:
        args.remove('--round4'); root = '/tmp/sd'; names = {'a': 'g', 'b': 'h'}
    if '--round5' in args:
        args.remove('--round5'); root = '/tmp/se'; names = {'a': 'i', 'b': 'j'}
    if '--round6' in args:
        args.remove('--round6'); root = '/tmp/sf'; names = {'a': 'k', 'b': 'l'}
    if '--round7' in args:
        args.remove('--round7'); root = '/tmp/sg'; names = {'a': 'm', 'b': 'n'}
    if '--round8' in args:
        args.remove('--round8'); root = '/tmp/sh'; names = {'a': 'o', 'b': 'p'}
    if '--round9' in args:
        args.remove('--round9'); root = '/tmp/si'; names = {'a': 'q', 'b': 'r'}
    for prop in args:
        src = '%s/%s/out' % (root, prop)
        for v in ('a', 'b'):
            diff = os.path.join(src, v + '.diff'); demo = os.path.join(src, 'demo_%s.py' % v)
            if not (os.path.exists(diff) and os.path.exists(demo)):
                print(prop, v, 'MISSING'); continue
            wt = '/tmp/confirm_%s_%s' % (prop, names[v])
            sh('git -C /repo worktree remove --force %s' % wt)
            rc, o = sh('git -C /repo worktree add -q --detach %s HEAD' % wt)
            env = dict(os.environ, PYTHONPATH=wt, PYTHONDONTWRITEBYTECODE='1')
            try:
                rc, o = sh('git apply --whitespace=nowarn %s' % diff, cwd=wt)
                if rc != 0:
                    rc, o = sh('git apply --3way --whitespace=nowarn %s' % diff, cwd=wt)
                if rc != 0:
                    print(prop, v, 'PATCH DOES NOT APPLY', o[-300:]); continue
                rc, which = sh('%s -c "import ciw; print(ciw.__file__)"' % PY, cwd=wt, env=env)
                assert wt in which, which
                rc_t, o_t = sh('%s -m pytest -q -p no:cacheprovider --timeout=900 -x 2>&1 | tail -1' % PY, cwd=wt, env=env)
                tests_ok = ' passed' in o_t and 'failed' not in o_t and 'error' not in o_t.lower()
                m = re.search(r'(\d+) passed', o_t)
                rc_d, o_d = sh('timeout 300 %s %s' % (PY, demo), cwd=wt, env=env)
                _, pdiff = sh('git diff', cwd=wt)
                sh('git checkout -- .', cwd=wt)
                rc_c, o_c = sh('timeout 300 %s %s' % (PY, demo), cwd=wt, env=env)
                ok = tests_ok and rc_d != 0 and rc_c == 0
                print(prop, names[v], 'tests:', o_t.strip()[-60:], '| demo with change rc=%d | clean rc=%d |' % (rc_d, rc_c), 'CONFIRMED' if ok else 'REJECTED')
                if ok:
                    d = os.path.join(out_root, '%s-%s' % (prop, names[v]))
                    os.makedirs(d, exist_ok=True)
                    with open(os.path.join(d, 'patch.diff'), 'w') as f: f.write(pdiff)
                    shutil.copy(demo, os.path.join(d, 'demo.py'))
                    notes = ''
                    if os.path.exists(os.path.join(src, 'notes.md')):
                        notes = open(os.path.join(src, 'notes.md')).read()
                        with open(os.path.join(d, 'agent_notes.md'), 'w') as f: f.write(notes)
                    meta = {'id': '%s-%s' % (prop, names[v]), 'breaks_property': prop, 'source': 'independent sub-agent given only the property text and a scratch worktree',
                            'repo_head_when_confirmed': sh('git -C /repo rev-parse --short HEAD')[1].strip(),
                            'confirmed': {'tests_with_change': o_t.strip()[-80:], 'demo_with_change_exit': rc_d, 'demo_clean_exit': rc_c,
                                          'demo_failure_tail': o_d.strip()[-300:]},
                            'commands': ['git apply patch.diff (scratch worktree)', 'pytest -q (330 tests)', 'python demo.py (fails)', 'git checkout -- . ; python demo.py (passes)'],
                            'needs_to_manifest': 'see agent_notes.md', 'detected_by': None}
                    mp = os.path.join(d, 'meta.json')
                    if os.path.exists(mp):
                        old = json.load(open(mp))
                        meta['detected_by'] = old.get('detected_by'); meta['needs_to_manifest'] = old.get('needs_to_manifest', meta['needs_to_manifest'])
                    json.dump(meta, open(mp, 'w'), indent=1)
            finally:
                sh('git -C /repo worktree remove --force %s' % wt)
                shutil.rmtree(wt, ignore_errors=True)


if __name__ == '__main__':
    main()
