#!/bin/sh
# usage: seed_sweep.sh <tier> <seed> [<seed> ...]   -- runs every check on the unchanged tree; prints anything that is not HELD
cd "$(dirname "$0")/.."
TIER=$1; shift
for s in "$@"; do
  for i in 01 02 03 04 05 06 07 08 09 10 11 12 13 14 15 16 17 18 19 20; do
    out=$(VERIF_SEED=$s VERIF_NO_EVIDENCE=1 ./check C$i --tier $TIER 2>&1); rc=$?
    if [ $rc -ne 0 ]; then echo "seed=$s C$i rc=$rc"; echo "$out" | grep -v KNOWN | tail -4 | cut -c1-300; fi
  done
  echo "seed $s done"
done
