#!/usr/bin/env python3
"""Run the repository's own test suite with spec-free runtime invariants switched on (class-level hook on
Simulation.event_and_return_nextnode), to look for oracle clauses that are stricter than behaviour the maintainers
test for — or defects the tests exercise but do not assert. Not a manifest check; a calibration tool.

usage: PYTHONPATH=/repo /venv/bin/python -B selftest/repo_tests_under_monitor.py [pytest args]
Invariants after every event executed by any simulate_* loop of any test:
  I1 conservation: created = in nodes + at exit; node counters == list lengths; ids unique
  I2 clock: never decreases per simulation; no node's next event date lies before the clock
  I3 servers (ordinary finite-server nodes): busy <=> has customer; server<->customer links agree
  I4 work conservation (ordinary finite-server, non-slotted nodes with a built-in discipline and no server priority function):
     no idle on-duty server while a customer holds no server
  I5 blocked customers: destination node is full (Type I blocking), and they hold their server at ordinary nodes
"""
import sys, os, math, collections
import pytest
import ciw

VIOL = collections.defaultdict(list)
COUNT = collections.Counter()
CURRENT = {'test': None}
BUILTIN_DISC = {ciw.disciplines.FIFO, ciw.disciplines.LIFO, ciw.disciplines.SIRO}


def v(code, detail):
    VIOL[(code, CURRENT['test'])].append(detail)


def check(Q):
    COUNT['events'] += 1
    t = Q.current_time
    prev = getattr(Q, '_mon_prev_t', None)
    if prev is not None and t < prev: v('I2_clock_backwards', (prev, t))
    Q._mon_prev_t = t
    ids = []
    for nd in Q.transitive_nodes:
        inds = list(nd.all_individuals)
        if nd.number_of_individuals != len(inds): v('I1_count_mismatch', (nd.id_number, nd.number_of_individuals, len(inds)))
        ids += [i.id_number for i in inds]
        try:
            if nd.next_event_date < t: v('I2_scheduled_in_past', (nd.id_number, str(nd.next_event_date), str(t), nd.next_event_type))
        except TypeError:
            pass
        ordinary = type(nd) in (ciw.Node, ciw.simulation.ExactNode) and not math.isinf(nd.c) and not nd.slotted
        if ordinary:
            COUNT['server_checks'] += 1
            intr = set(id(i) for i in nd.interrupted_individuals)
            for s in nd.servers:
                if bool(s.busy) != bool(s.cust): v('I3_busy_flag', (nd.id_number, s.id_number))
                if s.cust and s.cust.server is not s and id(s.cust) not in intr: v('I3_link_server_to_customer', (nd.id_number, s.id_number))
            for i in inds:
                if i.server and id(i) not in intr and (i.server not in nd.servers or i.server.cust is not i):
                    v('I3_link_customer_to_server', (nd.id_number, i.id_number))
            if nd.service_discipline in BUILTIN_DISC and nd.server_priority_function is None:
                waiting = [i for i in inds if (not i.server) or id(i) in intr]
                free = [s for s in nd.servers if not s.busy and not s.offduty]
                if waiting and free: v('I4_idle_server_while_waiting', (nd.id_number, str(t), len(waiting), len(free)))
        for i in inds:
            if i.is_blocked:
                COUNT['blocked_checks'] += 1
                d = i.destination
                if d is not False and d != -1:
                    dn = Q.nodes[d]
                    if dn.number_of_individuals < dn.node_capacity: v('I5_blocked_though_space', (nd.id_number, i.id_number, d))
                if ordinary and not i.server: v('I5_blocked_without_server', (nd.id_number, i.id_number))
    ex = Q.nodes[-1]
    if len(ids) != len(set(ids)): v('I1_duplicate_ids', (len(ids),))
    n_arr = Q.nodes[0].number_of_individuals
    if len(ids) + len(ex.all_individuals) != n_arr: v('I1_conservation', (len(ids), len(ex.all_individuals), n_arr))


class Plugin:
    def pytest_sessionstart(self, session):
        orig = ciw.Simulation.event_and_return_nextnode

        def hooked(self_, nd):
            r = orig(self_, nd)
            try:
                check(self_)
            except Exception as e:   # a hand-made half-built simulation in a unit test
                COUNT['check_errors'] += 1
            return r
        ciw.Simulation.event_and_return_nextnode = hooked

    def pytest_runtest_setup(self, item):
        CURRENT['test'] = item.nodeid.split('::')[-1]


if __name__ == '__main__':
    repo = os.environ.get('CIW_REPO', '/repo')
    rc = pytest.main(['-q', '-p', 'no:cacheprovider', '--timeout=900', os.path.join(repo, 'ciw', 'tests')] + sys.argv[1:], plugins=[Plugin()])
    print('\n=== invariants under the repository\'s own tests: %s' % dict(COUNT))
    agg = collections.defaultdict(list)
    for (code, test), lst in VIOL.items(): agg[code].append((test, len(lst), lst[0]))
    for code, items in sorted(agg.items()):
        print(code, 'in', len(items), 'tests')
        for test, n, first in items[:8]: print('    ', test, n, first)
    sys.exit(0 if rc == 0 else 1)
