import ciw
N = ciw.create_network(arrival_distributions=[ciw.dists.Sequential([1.0, 2.0, 100.0])], service_distributions=[ciw.dists.Deterministic(10.0)], number_of_servers=[3])
Q = ciw.Simulation(N, tracker=ciw.trackers.SystemPopulation())
Q.simulate_until_max_time(4.0)
print(Q.statetracker.history)
print(Q.statetracker.state_probabilities())
print(Q.statetracker.state_probabilities(observation_period=(0, 4.0)))
print(Q.statetracker.state_probabilities(observation_period=(0, 3.0)))
