"""K35: simulate_until_max_customers(n) when the count has already reached n (a second call with the same n, or n = 0):
the loop body never runs and wrap_up_servers(previous_time) raises UnboundLocalError instead of returning."""
import ciw
N = ciw.create_network(arrival_distributions=[ciw.dists.Exponential(2)], service_distributions=[ciw.dists.Exponential(3)], number_of_servers=[1])
ciw.seed(0)
Q = ciw.Simulation(N)
Q.simulate_until_max_customers(10, method='Finish')
n = len(Q.get_all_records())
Q.simulate_until_max_customers(10, method='Finish')     # nothing left to do: must simply return
assert len(Q.get_all_records()) == n
Q.simulate_until_max_customers(15, method='Finish')     # and the run can be continued
assert Q.nodes[-1].number_of_individuals == 15
print('ok')
