"""K33: class change while waiting at a node with pre-emptive priorities and a custom 'lingering' discipline
(returns None until a customer has waited k time units): decide_preempt is called although a server is idle
(AttributeError: 'bool' object has no attribute 'is_blocked') or with None as the candidate."""
import ciw
def linger(individuals, t):
    ready = [ind for ind in individuals if (t - ind.arrival_date) >= 2]
    return ready[0] if ready else None
N = ciw.create_network(
    arrival_distributions={'A': [ciw.dists.Sequential([1.0, 100.0])], 'B': [None]},
    service_distributions={'A': [ciw.dists.Deterministic(3.0)], 'B': [ciw.dists.Deterministic(3.0)]},
    number_of_servers=[2],
    priority_classes=({'A': 1, 'B': 0}, ['resume']),
    class_change_time_distributions={'A': {'B': ciw.dists.Deterministic(0.5)}, 'B': {}},
    service_disciplines=[linger])
ciw.seed(0)
Q = ciw.Simulation(N)
Q.simulate_until_max_time(20)
print(len(Q.get_all_records()), 'records; ok')
