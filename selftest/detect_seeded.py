#!/usr/bin/env python3
"""Run the checks against each confirmed seeded change (on a scratch worktree of /repo, via CIW_REPO) and record
which checks raise a VIOLATION. usage: detect_seeded.py [--all-checks] [--tier quick] <seeded id> ...   (default: all ids)"""
import sys, os, subprocess, json, re, shutil

ROOT = os.path.dirname(os.path.dirname(os.path.abspath(__file__)))
ALL = ['C%02d' % i for i in range(1, 21)]


def sh(cmd, cwd=None, timeout=3600, env=None):
    p = subprocess.run(cmd, shell=True, cwd=cwd, capture_output=True, text=True, timeout=timeout, env=env)
    return p.returncode, p.stdout + p.stderr


def main():
    args = sys.argv[1:]
    allchecks = '--all-checks' in args
    tier = 'quick'
    if '--tier' in args: tier = args[args.index('--tier') + 1]
    ids = [a for a in args if not a.startswith('--') and a != tier] or sorted(os.listdir(os.path.join(ROOT, 'seeded')))
    for sid in ids:
        d = os.path.join(ROOT, 'seeded', sid)
        meta = json.load(open(os.path.join(d, 'meta.json')))
        wt = '/tmp/detect_%s' % sid
        sh('git -C /repo worktree remove --force %s' % wt)
        sh('git -C /repo worktree add -q --detach %s HEAD' % wt)
        try:
            rc, o = sh('git apply --whitespace=nowarn %s' % os.path.join(d, 'patch.diff'), cwd=wt)
            if rc != 0:
                print(sid, 'PATCH DOES NOT APPLY TO CURRENT HEAD', o[-200:]); continue
            props = ALL if allchecks else [meta['breaks_property']] + [p for p in meta.get('also_run', [])]
            det = {}
            for p in props:
                env = dict(os.environ, CIW_REPO=wt, VERIF_NO_EVIDENCE='1')
                rc, o = sh('./check %s --tier %s' % (p, tier), cwd=ROOT, env=env)
                codes = sorted(set(re.findall(r'replay=\S*/%s-(.+?)-[0-9a-f]{10}\.json' % p, o)))
                det[p] = {'exit': rc, 'codes': codes}
                print(sid, p, 'exit', rc, codes[:6])
            meta.setdefault('detected_by', None)
            hits = {p: v['codes'] for p, v in det.items() if v['exit'] == 1}
            prev = meta.get('detection') or {}
            prev[tier] = {'repo_head': sh('git -C /repo rev-parse --short HEAD')[1].strip(), 'results': det}
            meta['detection'] = prev
            meta['detected_by'] = sorted(set((meta.get('detected_by') or [])) | set(hits))
            json.dump(meta, open(os.path.join(d, 'meta.json'), 'w'), indent=1)
        finally:
            sh('git -C /repo worktree remove --force %s' % wt)
            shutil.rmtree(wt, ignore_errors=True)


if __name__ == '__main__':
    main()
